// Package common is the recorder shared by all monitors: it keeps the
// write-ahead log of cases (so a process-fatal report is attributable), counts
// what was observed, keeps distinct-case signatures, samples and violations, and
// writes the result file the python driver turns into evidence.
package common

import (
	"encoding/binary"
	"encoding/json"
	"fmt"
	"hash/fnv"
	"math/rand/v2"
	"os"
	"sort"
	"strconv"
	"sync"
)

// Violation is one refutation of a property together with the case that
// produced it (enough to replay it).
type Violation struct {
	Sig  string `json:"sig"`  // violation signature: property/site/class (matched against known_findings.json)
	Desc string `json:"desc"` // what was observed vs. what the oracle demands
	Case any    `json:"case"` // the generated case, replayable with VERIF_REPLAY
	N    int64  `json:"n"`    // how many cases showed this signature
}

type Result struct {
	Property     string           `json:"property"`
	Evaluations  int64            `json:"evaluations"`
	Distinct     int64            `json:"distinct_nontrivial"`
	Rule         string           `json:"rule"`
	Samples      []any            `json:"samples"`
	Counters     map[string]int64 `json:"counters"`
	Violations   []*Violation     `json:"violations"`
	Inconclusive string           `json:"inconclusive,omitempty"`
	Exhaustive   bool             `json:"exhaustive"`
	Notes        []string         `json:"notes,omitempty"`
}

type Recorder struct {
	mu       sync.Mutex
	res      Result
	distinct map[uint64]struct{}
	viol     map[string]*Violation
	wal      *os.File
	maxSamp  int
}

var (
	Seed   uint64 = 1
	Tier          = "quick"
	Prop          = ""
	Replay        = ""
	Batch         = 0 // index of this child among NBatch children
	NBatch        = 1
)

func init() {
	if s := os.Getenv("VERIF_SEED"); s != "" {
		if v, err := strconv.ParseUint(s, 10, 64); err == nil {
			Seed = v
		}
	}
	if s := os.Getenv("VERIF_TIER"); s != "" {
		Tier = s
	}
	Prop = os.Getenv("VERIF_PROP")
	Replay = os.Getenv("VERIF_REPLAY")
	if s := os.Getenv("VERIF_BATCH"); s != "" {
		fmt.Sscanf(s, "%d/%d", &Batch, &NBatch)
	}
}

func Thorough() bool { return Tier == "thorough" }

// Pick returns q in the quick tier and t in the thorough tier.
func Pick(q, t int) int {
	if Thorough() {
		return t
	}
	return q
}

// Rng returns a deterministic PRNG for (seed, property, stream, batch).
func Rng(stream string) *rand.Rand {
	h := fnv.New64a()
	h.Write([]byte(Prop + "/" + stream))
	return rand.New(rand.NewPCG(Seed*0x9E3779B97F4A7C15+uint64(Batch), h.Sum64()))
}

// RngN is Rng for an indexed case, so that a single case can be regenerated
// without running the ones before it.
func RngN(stream string, n uint64) *rand.Rand {
	h := fnv.New64a()
	h.Write([]byte(Prop + "/" + stream))
	return rand.New(rand.NewPCG(Seed*0x9E3779B97F4A7C15+n*0xD1B54A32D192ED03, h.Sum64()))
}

func New(prop, rule string) *Recorder {
	r := &Recorder{distinct: map[uint64]struct{}{}, viol: map[string]*Violation{}, maxSamp: 6}
	r.res.Property = prop
	r.res.Rule = rule
	r.res.Counters = map[string]int64{}
	if p := os.Getenv("VERIF_WAL"); p != "" {
		f, err := os.OpenFile(p, os.O_CREATE|os.O_WRONLY|os.O_APPEND, 0o644)
		if err == nil {
			r.wal = f
		}
	}
	return r
}

// Begin logs a case before it runs (write-ahead; survives a fatal report).
func (r *Recorder) Begin(id string, c any) {
	if r.wal == nil {
		return
	}
	b, _ := json.Marshal(c)
	r.mu.Lock()
	fmt.Fprintf(r.wal, "BEGIN %s %s\n", id, b)
	r.mu.Unlock()
}

func (r *Recorder) End(id string) {
	if r.wal == nil {
		return
	}
	r.mu.Lock()
	fmt.Fprintf(r.wal, "END %s\n", id)
	r.mu.Unlock()
}

// Eval counts one executed case; sig identifies the case (distinctness) and
// nontrivial says whether it exercised the property by the harness's rule.
func (r *Recorder) Eval(sig string, nontrivial bool) {
	h := fnv.New64a()
	h.Write([]byte(sig))
	k := h.Sum64()
	r.mu.Lock()
	r.res.Evaluations++
	if nontrivial {
		r.distinct[k] = struct{}{}
	}
	r.mu.Unlock()
}

func (r *Recorder) Count(name string, n int64) {
	r.mu.Lock()
	r.res.Counters[name] += n
	r.mu.Unlock()
}

func (r *Recorder) Max(name string, n int64) {
	r.mu.Lock()
	if r.res.Counters[name] < n {
		r.res.Counters[name] = n
	}
	r.mu.Unlock()
}

// Sample keeps the first few samples offered (and, with 1/64 chance, replaces one
// so late cases are represented too).
func (r *Recorder) Sample(s any) {
	r.mu.Lock()
	defer r.mu.Unlock()
	if len(r.res.Samples) < r.maxSamp {
		r.res.Samples = append(r.res.Samples, s)
		return
	}
	if r.res.Evaluations%64 == 0 {
		r.res.Samples[int(r.res.Evaluations/64)%r.maxSamp] = s
	}
}

func (r *Recorder) WantSample() bool {
	r.mu.Lock()
	defer r.mu.Unlock()
	return len(r.res.Samples) < r.maxSamp || r.res.Evaluations%64 == 0
}

func (r *Recorder) Violate(sig, desc string, c any) {
	r.mu.Lock()
	defer r.mu.Unlock()
	if v, ok := r.viol[sig]; ok {
		v.N++
		return
	}
	if len(r.viol) >= 40 {
		r.res.Counters["violation_signatures_dropped"]++
		return
	}
	r.viol[sig] = &Violation{Sig: sig, Desc: desc, Case: c, N: 1}
	// a new kind of violation is put on disk at once: if a later case never comes back and the watchdog ends the
	// process, what was already observed is still reported
	r.write(false)
}

func (r *Recorder) NViolations() int {
	r.mu.Lock()
	defer r.mu.Unlock()
	return len(r.viol)
}

func (r *Recorder) Note(s string)         { r.mu.Lock(); r.res.Notes = append(r.res.Notes, s); r.mu.Unlock() }
func (r *Recorder) SetExhaustive(b bool)  { r.mu.Lock(); r.res.Exhaustive = b; r.mu.Unlock() }
func (r *Recorder) Inconclusive(s string) { r.mu.Lock(); r.res.Inconclusive = s; r.mu.Unlock() }

// Checkpoint writes the result file now (used before an operation that may kill the process).
func (r *Recorder) Checkpoint() {
	r.mu.Lock()
	defer r.mu.Unlock()
	r.write(false)
}

// Finish writes the result file named by VERIF_OUT (or stdout).
// Finish writes the result. It is deferred by the harness mains: when it runs because the harness itself is
// panicking (a bug of the harness, outside any library call it guards), the result is marked inconclusive - an
// aborted run must never read as "held on what was observed" - and the panic goes on.
func (r *Recorder) Finish() {
	if p := recover(); p != nil {
		r.mu.Lock()
		r.res.Inconclusive = fmt.Sprintf("the harness panicked and stopped early (harness bug, not a verdict): %v", p)
		r.write(true)
		r.mu.Unlock()
		panic(p)
	}
	r.mu.Lock()
	defer r.mu.Unlock()
	r.write(true)
}

func (r *Recorder) write(final bool) {
	r.res.Distinct = int64(len(r.distinct))
	keys := make([]string, 0, len(r.viol))
	for k := range r.viol {
		keys = append(keys, k)
	}
	sort.Strings(keys)
	r.res.Violations = r.res.Violations[:0]
	for _, k := range keys {
		r.res.Violations = append(r.res.Violations, r.viol[k])
	}
	if r.res.Samples == nil {
		r.res.Samples = []any{}
	}
	b, err := json.MarshalIndent(&r.res, "", " ")
	if err != nil {
		b = []byte(fmt.Sprintf(`{"property":%q,"inconclusive":"cannot marshal result: %s"}`, r.res.Property, err))
	}
	if p := os.Getenv("VERIF_OUT"); p != "" {
		sigs := make([]byte, 0, 8*len(r.distinct))
		for k := range r.distinct {
			sigs = binary.LittleEndian.AppendUint64(sigs, k)
		}
		os.WriteFile(p+".sigs", sigs, 0o644)
		if err := os.WriteFile(p+".tmp", b, 0o644); err == nil {
			os.Rename(p+".tmp", p)
		}
	} else if final {
		os.Stdout.Write(b)
		fmt.Println()
	}
	if final && r.wal != nil {
		r.wal.Close()
	}
}

// LoadReplay reads the "case" member of a replay file into v.
func LoadReplay(v any) error {
	b, err := os.ReadFile(Replay)
	if err != nil {
		return err
	}
	var env struct {
		Case json.RawMessage `json:"case"`
	}
	if err := json.Unmarshal(b, &env); err != nil {
		return err
	}
	return json.Unmarshal(env.Case, v)
}

// Catch runs f and returns the recovered panic value (nil if none).
func Catch(f func()) (p any) {
	defer func() { p = recover() }()
	f()
	return nil
}

// ID turns an arbitrary case description into a short token usable in the write-ahead log.
func ID(s string) string {
	h := fnv.New64a()
	h.Write([]byte(s))
	return fmt.Sprintf("%016x", h.Sum64())
}

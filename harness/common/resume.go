package common

import (
	"os"
	"sync/atomic"
)

// After a process-fatal report the driver restarts the child with
// VERIF_RESUME_AFTER=<case id>: cases are regenerated deterministically and
// skipped up to and including that id.
var (
	resumeAfter = os.Getenv("VERIF_RESUME_AFTER")
	resumed     atomic.Bool
)

func init() {
	if resumeAfter == "" {
		resumed.Store(true)
	}
}

// Skip reports whether the case with this id was already handled by a previous
// incarnation of this child. Call it with every case id in generation order.
func Skip(id string) bool {
	if resumed.Load() {
		return false
	}
	if id == resumeAfter {
		resumed.Store(true)
	}
	return true
}

// ductmon — C16: typed duct programs are interpreted at run time through a table
// of explicit instantiations (table.go); the callback trace of Morphism.Apply is
// compared with the trace of a reference model (tree + stack of open contexts),
// checked independently for bracket discipline, and re-run with a visitor that
// fails at every callback position.
package main

import (
	"errors"
	"fmt"
	"reflect"
	"slices"
	"strings"
	"sync"

	"verif/harness/common"

	"github.com/fogfish/golem/duct"
)

type step struct {
	Op string `json:"op"`          // join | lift | wrap | unit | yield
	C  string `json:"c,omitempty"` // target type of join / lift
}

type prog struct {
	Lift int `json:"lift,omitempty"` // how the lifted arguments are made: 0 L1/L2, 1 zero values, 2 converted from other type parameters, 3 L1/L2 of a function payload
	A     string `json:"a"`
	Steps []step `json:"steps"`
}

type caseT struct {
	Prog prog `json:"prog"`
	Fail int  `json:"fail"` // callback index at which the visitor fails (-1: never)
}

var rec *common.Recorder

func elemOf(t string) (string, bool) {
	if strings.HasPrefix(t, "[]") {
		return t[2:], true
	}
	return "", false
}

func inU(t string) bool {
	for _, u := range universe {
		if u == t {
			return true
		}
	}
	return false
}

// next type after a step, or "" if the step is ill-typed in state b
func typeStep(b string, s step) string {
	switch s.Op {
	case "join":
		return s.C
	case "lift":
		if _, ok := elemOf(b); ok {
			return s.C
		}
	case "wrap":
		if e, ok := elemOf(b); ok {
			return e
		}
	case "unit":
		if inU("[]" + b) {
			return "[]" + b
		}
	case "yield":
		return "Void"
	}
	return ""
}

// ---------------------------------------------------------------- reference model

type mnode struct {
	kind   string // morphism | seq | from | map | yield
	ta, tb string
	tok    any
	kids   []*mnode
}

type event struct {
	Cb    string `json:"cb"`
	Depth int    `json:"depth"`
	F     string `json:"fields"`
}

func model(p prog) *mnode {
	root := &mnode{kind: "morphism"}
	root.kids = append(root.kids, &mnode{kind: "from", ta: names[p.A], tok: tokOf(0)})
	open := []*mnode{root}
	b := p.A
	for i, s := range p.Steps {
		top := open[len(open)-1]
		switch s.Op {
		case "join":
			top.kids = append(top.kids, &mnode{kind: "map", ta: names[b], tb: names[s.C], tok: tokOf(i + 1)})
		case "yield":
			top.kids = append(top.kids, &mnode{kind: "yield", ta: names[b], tok: tokOf(i + 1)})
		case "lift":
			e, _ := elemOf(b)
			in := &mnode{kind: "seq"}
			in.kids = append(in.kids, &mnode{kind: "map", ta: names[e], tb: names[s.C], tok: tokOf(i + 1)})
			top.kids = append(top.kids, in)
			open = append(open, in)
		case "wrap":
			in := &mnode{kind: "seq"}
			top.kids = append(top.kids, in)
			open = append(open, in)
		case "unit":
			if len(open) > 1 {
				open = open[:len(open)-1]
			}
		}
		b = typeStep(b, s)
	}
	return root
}

func tokOf(i int) any {
	if liftVariant == 1 {
		return nil // a zero-valued lifted argument carries nothing
	}
	if liftVariant == 3 {
		// the payload is opaque to the library: here a one-argument function whose own signature (any -> fmt.Stringer)
		// has nothing to do with the type parameters of the step that lifts it
		return widePayload
	}
	return fmt.Sprintf("tok-%d", i)
}

func (n *mnode) trace(depth int, out *[]event) {
	switch n.kind {
	case "morphism", "seq":
		name := "Morphism"
		if n.kind == "seq" {
			name = "Seq"
		}
		f := fmt.Sprintf("root=%v kids=%d", n.kind == "morphism", len(n.kids))
		*out = append(*out, event{"Enter" + name, depth, f})
		for _, k := range n.kids {
			k.trace(depth+1, out)
		}
		*out = append(*out, event{"Leave" + name, depth, f})
	case "from":
		f := fmt.Sprintf("type=%s source=%v", n.ta, n.tok)
		*out = append(*out, event{"EnterFrom", depth, f}, event{"LeaveFrom", depth, f})
	case "map":
		f := fmt.Sprintf("a=%s b=%s f=%v", n.ta, n.tb, n.tok)
		*out = append(*out, event{"EnterMap", depth, f}, event{"LeaveMap", depth, f})
	case "yield":
		f := fmt.Sprintf("type=%s target=%v", n.ta, n.tok)
		*out = append(*out, event{"EnterYield", depth, f}, event{"LeaveYield", depth, f})
	}
}

// ---------------------------------------------------------------- recording visitor

var boom = errors.New("visitor failed here")

var widePayload = func(x any) fmt.Stringer { return nil }

// the errors a failing visitor returns: an error is whatever is not the nil interface - also an error value whose
// dynamic value is a nil pointer, a nil map or a nil channel
type ptrErr struct{ n int }

func (*ptrErr) Error() string { return "a nil *ptrErr" }

type mapErr map[string]int

func (mapErr) Error() string { return "a nil mapErr" }

type chanErr chan int

func (chanErr) Error() string { return "a nil chanErr" }

var booms = []error{boom, (*ptrErr)(nil), mapErr(nil), chanErr(nil), boom}

func boomAt(k int) error { return booms[k%len(booms)] }

// sameErr: identity of the error value returned (dynamic type and, for the comparable ones, value)
func sameErr(a, b error) bool {
	if a == nil || b == nil {
		return a == nil && b == nil
	}
	if reflect.TypeOf(a) != reflect.TypeOf(b) {
		return false
	}
	if _, isMap := a.(mapErr); isMap {
		return a.(mapErr) == nil && b.(mapErr) == nil
	}
	return a == b
}

type recorder struct {
	ev     []event
	failAt int
	seqs   []seqSeen // sequence nodes handed to the enter callbacks, with the position of that callback
}

type seqSeen struct {
	node  duct.AstSeq
	depth int
	at    int
}

func (r *recorder) hit(cb string, depth int, f string) error {
	r.ev = append(r.ev, event{cb, depth, f})
	if len(r.ev)-1 == r.failAt {
		return boomAt(r.failAt)
	}
	if len(r.ev) > 100000 {
		return errors.New("runaway visit")
	}
	return nil
}
func seqF(n duct.AstSeq) string { return fmt.Sprintf("root=%v kids=%d", n.Root, len(n.Seq)) }
func (r *recorder) OnEnterMorphism(d int, n duct.AstSeq) error {
	r.seqs = append(r.seqs, seqSeen{n, d, len(r.ev)})
	return r.hit("EnterMorphism", d, seqF(n))
}
func (r *recorder) OnLeaveMorphism(d int, n duct.AstSeq) error {
	return r.hit("LeaveMorphism", d, seqF(n))
}
func (r *recorder) OnEnterSeq(d int, n duct.AstSeq) error {
	r.seqs = append(r.seqs, seqSeen{n, d, len(r.ev)})
	return r.hit("EnterSeq", d, seqF(n))
}
func (r *recorder) OnLeaveSeq(d int, n duct.AstSeq) error { return r.hit("LeaveSeq", d, seqF(n)) }
func (r *recorder) OnEnterMap(d int, n duct.AstMap) error {
	return r.hit("EnterMap", d, fmt.Sprintf("a=%s b=%s f=%v", n.TypeA, n.TypeB, n.F))
}
func (r *recorder) OnLeaveMap(d int, n duct.AstMap) error {
	return r.hit("LeaveMap", d, fmt.Sprintf("a=%s b=%s f=%v", n.TypeA, n.TypeB, n.F))
}
func (r *recorder) OnEnterFrom(d int, n duct.AstFrom) error {
	return r.hit("EnterFrom", d, fmt.Sprintf("type=%s source=%v", n.Type, n.Source))
}
func (r *recorder) OnLeaveFrom(d int, n duct.AstFrom) error {
	return r.hit("LeaveFrom", d, fmt.Sprintf("type=%s source=%v", n.Type, n.Source))
}
func (r *recorder) OnEnterYield(d int, n duct.AstYield) error {
	return r.hit("EnterYield", d, fmt.Sprintf("type=%s target=%v", n.Type, n.Target))
}
func (r *recorder) OnLeaveYield(d int, n duct.AstYield) error {
	return r.hit("LeaveYield", d, fmt.Sprintf("type=%s target=%v", n.Type, n.Target))
}

// names: the type names the model expects. duct.TypeOf of the universe (the property's wording) once it has been
// computed; the independently written wantName table during the cold start (the companion check below compares the two)
var names = wantName

// coldStart: the first thing a child process does with duct is to build and visit pipelines from several goroutines
// at once, over types the library has not seen yet in this process. Pipelines are independent values; the traces
// must be those of the model. (A crash of the run time - concurrent map access - is attributed to this case.)
func coldStart() {
	c := caseT{Prog: prog{A: "cold-start"}, Fail: -1}
	rec.Begin("cold-start", c)
	defer rec.End("cold-start")
	var ps []prog
	for _, a := range sources {
		for _, t := range universe {
			p := prog{A: a, Steps: []step{{Op: "join", C: t}}}
			if e, ok := elemOf(t); ok && inU(e) {
				p.Steps = append(p.Steps, step{Op: "lift", C: universe[(len(ps)*7)%len(universe)]}, step{Op: "unit"})
			}
			p.Steps = append(p.Steps, step{Op: "yield"})
			// keep the well-typed prefix
			b := p.A
			for i, s := range p.Steps {
				nb := typeStep(b, s)
				if nb == "" {
					p.Steps = p.Steps[:i]
					break
				}
				b = nb
			}
			ps = append(ps, p)
		}
	}
	const workers = 16
	msgs := make([]string, workers)
	var wg sync.WaitGroup
	start := make(chan struct{})
	for w := 0; w < workers; w++ {
		wg.Add(1)
		go func(w int) {
			defer wg.Done()
			<-start
			for i := range coldTab {
				ct := coldTab[(i*7+w*len(coldTab)/workers)%len(coldTab)]
				if got := ct.f(); got != ct.want {
					msgs[w] = fmt.Sprintf("duct.TypeOf of a type first named concurrently is %q, the scheme gives %q", got, ct.want)
					return
				}
			}
			for i := range ps {
				p := ps[(i*5+w*len(ps)/workers)%len(ps)] // every goroutine starts at another type
				var ev []event
				var err error
				if pn := common.Catch(func() {
					m, b := build(p)
					r := &recorder{failAt: -1}
					err = applyTab[p.A+"|"+b](m, r)
					ev = r.ev
				}); pn != nil {
					msgs[w] = fmt.Sprintf("%v: panic %v", p, pn)
					return
				}
				var want []event
				model(p).trace(0, &want)
				if err != nil || !reflect.DeepEqual(ev, want) {
					msgs[w] = fmt.Sprintf("%v: trace %v err %v, the declared steps give %v", p, ev, err, want)
					return
				}
			}
		}(w)
	}
	close(start)
	wg.Wait()
	for w, m := range msgs {
		if m != "" {
			rec.Violate("C16/cold-start/trace", fmt.Sprintf("pipelines built concurrently by %d goroutines in a fresh process; goroutine %d: %s", workers, w, m), c)
			break
		}
	}
	rec.Eval("cold-start", true)
	rec.Count("cold_start_programs", int64(workers*len(ps)))
}

// ---------------------------------------------------------------- running the real thing

// build executes the program with the real combinators (each morphism value used once).
func build(p prog) (m any, b string) {
	m = fromTab[p.A](tokOf(0))
	b = p.A
	for i, s := range p.Steps {
		nb := typeStep(b, s)
		if nb == "" {
			panic(fmt.Sprintf("ill-typed step %d %+v in state %s", i, s, b))
		}
		switch s.Op {
		case "join":
			m = joinTab[p.A+"|"+b+"|"+s.C](tokOf(i+1), m)
		case "lift":
			e, _ := elemOf(b)
			m = liftTab[p.A+"|"+e+"|"+s.C](tokOf(i+1), m)
		case "wrap":
			e, _ := elemOf(b)
			m = wrapTab[p.A+"|"+e](m)
		case "unit":
			m = unitTab[p.A+"|"+b](m)
		case "yield":
			m = yieldTab[p.A+"|"+b](tokOf(i+1), m)
		}
		b = nb
	}
	return m, b
}

// bracket discipline, independent of the model
func brackets(ev []event) string {
	type fr struct {
		cb    string
		depth int
		f     string
	}
	var st []fr
	for i, e := range ev {
		switch {
		case strings.HasPrefix(e.Cb, "Enter"):
			if len(st) == 0 && e.Depth != 0 {
				return fmt.Sprintf("event %d: top-level enter at depth %d", i, e.Depth)
			}
			if len(st) > 0 && e.Depth != st[len(st)-1].depth+1 {
				return fmt.Sprintf("event %d: %s at depth %d inside %s at depth %d", i, e.Cb, e.Depth, st[len(st)-1].cb, st[len(st)-1].depth)
			}
			if len(st) > 0 && !strings.HasSuffix(st[len(st)-1].cb, "Morphism") && !strings.HasSuffix(st[len(st)-1].cb, "Seq") {
				return fmt.Sprintf("event %d: %s nested inside leaf %s", i, e.Cb, st[len(st)-1].cb)
			}
			if i > 0 && len(st) == 0 {
				return fmt.Sprintf("event %d: second root", i)
			}
			if e.Cb == "EnterMorphism" && len(st) != 0 {
				return fmt.Sprintf("event %d: nested root morphism", i)
			}
			st = append(st, fr{e.Cb, e.Depth, e.F})
		case strings.HasPrefix(e.Cb, "Leave"):
			if len(st) == 0 {
				return fmt.Sprintf("event %d: %s without enter", i, e.Cb)
			}
			top := st[len(st)-1]
			if "Leave"+top.cb[5:] != e.Cb || top.depth != e.Depth || top.f != e.F {
				return fmt.Sprintf("event %d: %s@%d does not match open %s@%d", i, e.Cb, e.Depth, top.cb, top.depth)
			}
			st = st[:len(st)-1]
		}
	}
	if len(st) != 0 {
		return fmt.Sprintf("%d enter callbacks never left", len(st))
	}
	if len(ev) == 0 || ev[0].Cb != "EnterMorphism" {
		return "visit does not start with the root morphism"
	}
	return ""
}

func runProg(p prog, fails []int, allFails bool) {
	c := caseT{Prog: p, Fail: -1}
	id := common.ID(fmt.Sprint(p))
	rec.Begin(id, c)
	defer rec.End(id)
	liftVariant = p.Lift
	defer func() { liftVariant = 0 }()
	var want []event
	model(p).trace(0, &want)
	site := "C16/"
	if len(p.Steps) > 0 {
		site += p.Steps[len(p.Steps)-1].Op + "/"
	} else {
		site += "from/"
	}
	var seen []seqSeen
	visit := func(failAt int) (ev []event, err error, pn any) {
		pn = common.Catch(func() {
			m, b := build(p)
			r := &recorder{failAt: failAt}
			err = applyTab[p.A+"|"+b](m, r)
			ev = r.ev
			seen = r.seqs
		})
		return
	}
	ev, err, pn := visit(-1)
	nontrivial := len(p.Steps) >= 2
	rec.Eval(fmt.Sprint(p), nontrivial)
	rec.Count("callbacks_observed", int64(len(ev)))
	if pn != nil {
		rec.Violate(site+"panic", fmt.Sprintf("%v", pn), c)
		return
	}
	if err != nil {
		rec.Violate(site+"error", fmt.Sprintf("recording visitor never fails but Apply returned %v", err), c)
		return
	}
	if msg := brackets(ev); msg != "" {
		rec.Violate(site+"brackets", msg+fmt.Sprintf(" (trace %v)", ev), c)
		return
	}
	if !reflect.DeepEqual(ev, want) {
		i := 0
		for i < len(ev) && i < len(want) && ev[i] == want[i] {
			i++
		}
		var g, w any = "<end>", "<end>"
		if i < len(ev) {
			g = ev[i]
		}
		if i < len(want) {
			w = want[i]
		}
		rec.Violate(site+"trace", fmt.Sprintf("callback %d is %v, the declared steps give %v (got %d callbacks, want %d)", i, g, w, len(ev), len(want)), c)
		return
	}
	// a node handed to a callback is itself visitable (Ast.Apply): visiting it again at its depth reports exactly the
	// part of the trace between its enter and its leave callback - for the root, the one root morphism again
	for _, sn := range seen {
		end := sn.at + 1
		for lv := 1; end < len(ev) && lv > 0; end++ {
			switch {
			case strings.HasPrefix(ev[end].Cb, "Enter"):
				lv++
			case strings.HasPrefix(ev[end].Cb, "Leave"):
				lv--
			}
		}
		// ... at its own depth, from depth 0 and from a deeper level: the callbacks are those of the node (a root stays
		// a root morphism, a nested context a nested one), the depths move with the starting depth
		for _, d0 := range []int{sn.depth, 0, sn.depth + 3} {
			r := &recorder{failAt: -1}
			var err error
			if pn := common.Catch(func() { err = sn.node.Apply(d0, r) }); pn != nil || err != nil {
				rec.Violate(site+"revisit/error", fmt.Sprintf("visiting the node of callback %d again: panic %v, error %v", sn.at, pn, err), c)
				return
			}
			want := slices.Clone(ev[sn.at:end])
			for i := range want {
				want[i].Depth += d0 - sn.depth
			}
			if !reflect.DeepEqual(r.ev, want) {
				rec.Violate(site+"revisit/trace", fmt.Sprintf("visiting the node handed to callback %d (%v) again from depth %d reports %v, the first visit (at depth %d) reported %v for it", sn.at, ev[sn.at], d0, r.ev, sn.depth, ev[sn.at:end]), c)
				return
			}
			// a failing visitor on the sub-visit: the error comes back and the visit stops there
			if len(want) > 1 {
				k := len(want) - 1
				rf := &recorder{failAt: k}
				var ferr error
				if pn := common.Catch(func() { ferr = sn.node.Apply(d0, rf) }); pn != nil || !sameErr(ferr, boomAt(k)) || len(rf.ev) != k+1 {
					rec.Violate(site+"revisit/fail", fmt.Sprintf("visiting the node of callback %d again from depth %d with the visitor failing at its last callback: panic %v, error %v, %d callbacks (want %d)", sn.at, d0, pn, ferr, len(rf.ev), k+1), c)
					return
				}
			}
			rec.Count("nodes_revisited", 1)
		}
	}
	depth := 0
	for _, e := range ev {
		depth = max(depth, e.Depth)
	}
	rec.Max("max_nesting_depth", int64(depth))
	if rec.WantSample() {
		rec.Sample(map[string]any{"prog": p, "trace": ev})
	}
	// failing visitor at every (or the given) callback position
	if allFails {
		fails = fails[:0]
		for k := range want {
			fails = append(fails, k)
		}
	}
	for _, k := range fails {
		if k >= len(want) {
			continue
		}
		c := caseT{Prog: p, Fail: k}
		ev, err, pn := visit(k)
		rec.Count("failing_visits", 1)
		if pn != nil {
			rec.Violate(site+"fail/panic", fmt.Sprintf("fail at %d: %v", k, pn), c)
			return
		}
		if !sameErr(err, boomAt(k)) {
			rec.Violate(site+"fail/error", fmt.Sprintf("visitor failed at callback %d (%v) with the error %#v but Apply returned %#v", k, want[k], boomAt(k), err), c)
			return
		}
		if len(ev) != k+1 {
			rec.Violate(site+"fail/continues", fmt.Sprintf("visitor failed at callback %d (%v) but %d callbacks were made: %v", k, want[k], len(ev), ev[min(len(ev)-1, k+1):]), c)
			return
		}
		if !reflect.DeepEqual(ev, want[:k+1]) {
			rec.Violate(site+"fail/trace", fmt.Sprintf("trace before the failure at %d differs from the model", k), c)
			return
		}
	}
}

func main() {
	rec = common.New("C16", "well-typed programs From;(Join|LiftF|WrapF|Unit|Yield)* over a universe of 10 element types (X, []X, [][]X, [][][]X, *X, []*X, Y, []Y, Void, []Void) and 3 source types, "+
		"interpreted through explicit generic instantiations; all programs up to the length bound over a reduced target alphabet, plus seed-random longer programs over the full universe; "+
		"each program is visited once with a recording visitor and once per callback position with a visitor failing there; distinct by program; non-trivial = at least 2 steps after From")
	defer rec.Finish()
	// companion oracle: duct.TypeOf itself follows the documented naming scheme on the universe, so distinct
	// types get distinct names (the AST records duct.TypeOf of the step's type parameters, as C16 states)
	coldStart()
	typeOf := map[string]string{}
	for k, f := range typeOfFn {
		typeOf[k] = f()
	}
	names = typeOf
	for k, v := range typeOf {
		rec.Eval("typeof "+k, true)
		if v != wantName[k] {
			rec.Violate("C16/typeof/name", fmt.Sprintf("duct.TypeOf of %s is %q, the normalized name is %q", k, v, wantName[k]), caseT{Prog: prog{A: k}, Fail: -1})
		}
	}
	if common.Replay != "" {
		var c caseT
		if err := common.LoadReplay(&c); err != nil {
			rec.Inconclusive("cannot load replay: " + err.Error())
			return
		}
		runProg(c.Prog, []int{c.Fail}, c.Fail < 0)
		return
	}
	maxLen := common.Pick(5, 7)
	targets := []string{"X", "[]X", "[][]X"}
	n := 0
	var gen func(p prog, b string)
	gen = func(p prog, b string) {
		n++
		if n%common.NBatch == common.Batch {
			runProg(p, nil, true)
		}
		if len(p.Steps) == maxLen {
			return
		}
		var opts []step
		for _, t := range targets {
			opts = append(opts, step{Op: "join", C: t})
		}
		if _, ok := elemOf(b); ok {
			for _, t := range targets {
				opts = append(opts, step{Op: "lift", C: t})
			}
			opts = append(opts, step{Op: "wrap"})
		}
		opts = append(opts, step{Op: "unit"}, step{Op: "yield"})
		for _, s := range opts {
			nb := typeStep(b, s)
			if nb == "" {
				continue
			}
			q := prog{A: p.A, Steps: append(append([]step{}, p.Steps...), s)}
			gen(q, nb)
		}
	}
	gen(prog{A: "X"}, "X")
	gen(prog{A: "[]X"}, "[]X")
	rec.Count("max_exhaustive_program_length", int64(maxLen))
	rec.Count("max_exhaustive_programs_total", int64(n))

	nrand := common.Pick(3000, 100000)
	for k := 0; k < nrand; k++ {
		if k%common.NBatch != common.Batch {
			continue
		}
		r := common.RngN("rand", uint64(k))
		p := prog{A: sources[r.IntN(len(sources))]}
		b := p.A
		ln := 4 + r.IntN(27)
		nest := 0
		for len(p.Steps) < ln {
			var s step
			x := r.IntN(10)
			_, isSlice := elemOf(b)
			switch {
			case isSlice && x < 4:
				if r.IntN(2) == 0 {
					s = step{Op: "wrap"}
				} else {
					s = step{Op: "lift", C: universe[r.IntN(len(universe))]}
				}
			case x < 6:
				// bias towards slice targets so that nesting can continue
				s = step{Op: "join", C: universe[r.IntN(len(universe))]}
				if r.IntN(2) == 0 {
					s.C = []string{"[]X", "[][]X", "[][][]X", "[]*X", "[]Y", "[]Void", "[]*[]X", "*[]X"}[r.IntN(8)]
				}
			case x < 8:
				s = step{Op: "unit"}
			case x < 9:
				s = step{Op: "yield"}
			default:
				s = step{Op: "join", C: universe[r.IntN(len(universe))]}
			}
			nb := typeStep(b, s)
			if nb == "" {
				continue
			}
			if s.Op == "wrap" || s.Op == "lift" {
				nest++
			}
			p.Steps = append(p.Steps, s)
			b = nb
		}
		p.Lift = []int{0, 0, 1, 2, 3}[k%5]
		runProg(p, nil, true)
	}
}

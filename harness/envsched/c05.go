package envsched

import (
	"fmt"
	"slices"
	"testing"

	"verif/harness/common"

	"github.com/fogfish/golem/pipe/v2"
)

// C05 — sequential stages emit exactly the list image, in order, whatever the
// capacities and the interleaving of producer, stage and consumers (no cancel).

var c05Stages = []string{"Map", "FMap", "Filter", "Take", "TakeWhile", "Partition", "Fold", "ForEach", "Void", "ForEach/lift"}

func nOuts(stage string) (vals, errs, dones int) {
	switch stage {
	case "Map", "FMap", "fork.Map", "fork.FMap", "Unfold", "Emit":
		return 1, 1, 0
	case "Partition", "fork.Partition":
		return 2, 0, 0
	case "ForEach", "Void", "fork.ForEach", "fork.Void", "ForEach/lift":
		return 0, 0, 1
	}
	return 1, 0, 0
}

// consumer programs: per output a few single receives (the end game drains the rest)
func consumerSeqs(stage string, m int) [][]string {
	v, e, d := nOuts(stage)
	var out [][]string
	for j := 0; j < v; j++ {
		out = append(out, rep(fmt.Sprintf("R%d", j), m))
	}
	for j := 0; j < e; j++ {
		out = append(out, rep(fmt.Sprintf("E%d", j), 1))
	}
	for j := 0; j < d; j++ {
		out = append(out, rep(fmt.Sprintf("N%d", j), 1))
	}
	return out
}

func genC05(t *testing.T) {
	n := 0
	run := func(c *caseT) {
		n++
		if n%common.NBatch != common.Batch {
			return
		}
		runCase(t, c, hooks{})
	}
	maxLen := common.Pick(2, 3)
	for _, st := range c05Stages {
		for ln := 0; ln <= maxLen; ln++ {
			for _, cp := range []int{0, 1, 2} {
				ns := []int{0}
				if st == "Take" {
					ns = []int{0, 1, 2, ln, ln + 2}
					slices.Sort(ns)
					ns = slices.Compact(ns)
				}
				for _, tn := range ns {
					prod := append(rep("S0", ln), "C0")
					cons := consumerSeqs(st, min(ln, 2))
					if st == "Partition" && ln >= 3 {
						cons = consumerSeqs(st, 1)
					}
					seqs := append([][]string{prod}, cons...)
					fs := uint64(ln*7 + cp*3 + tn)
					interleavings(seqs, func(script []string) {
						mode := "pure"
						if st == "FMap" {
							mode = "lift"
						}
						in := ids(100*int(fs%9), ln)
						c := &caseT{Site: st, Stage: st, Cap: cp, Mode: mode, N: tn, Inputs: [][]int{in}, FSeed: fs + uint64(len(script)), Script: script, End: "complete", Monoid: "poly"}
						if st == "ForEach/lift" { // visits that return an error are still visits (ForEach has no error output)
							c.Stage, c.Mode, c.Fail = "ForEach", "lift", in[:(ln+1)/2]
						}
						run(c)
					})
				}
			}
		}
	}
	rec.Count("max_exhaustive_input_length", int64(maxLen))
	// random longer cases
	nr := common.Pick(2500, 150000)
	for k := 0; k < nr; k++ {
		r := common.RngN("c05", uint64(k))
		st := c05Stages[r.IntN(len(c05Stages))]
		ln := wide(r, 41, 100, 257)
		cp := wide(r, 9, 16, 64, 300)
		mode := "pure"
		if st == "FMap" {
			mode = "lift"
		}
		c := &caseT{Site: st, Stage: st, Cap: cp, Mode: mode, Inputs: [][]int{ids(1000*r.IntN(50), ln)}, FSeed: r.Uint64() % 100000, End: "complete", Monoid: "poly"}
		if st == "ForEach/lift" {
			c.Stage, c.Mode = "ForEach", []string{"lift", "try"}[r.IntN(2)]
			for _, x := range c.Inputs[0] {
				if r.IntN(3) == 0 {
					c.Fail = append(c.Fail, x)
				}
			}
		}
		if st == "Take" {
			c.N = r.IntN(ln + 3)
		}
		prod := append(rep("S0", ln), "C0")
		if r.IntN(4) == 0 { // producer stops early: the end game sends the rest
			prod = rep("S0", r.IntN(ln+1))
		}
		cons := consumerSeqs(st, r.IntN(ln+2))
		c.Script = randInterleave(r, append([][]string{prod}, cons...), []int{0, 0, 20, 60}[r.IntN(4)])
		run(c)
	}
	if common.Batch == 0 {
		nilElemsSequential("C05")
	}
	progsC05(t)
	// Seq / ToSeq are plain functions: identity on every slice
	for k := 0; k < common.Pick(200, 5000); k++ {
		r := common.RngN("seq", uint64(k))
		xs := make([]int, r.IntN(30))
		for i := range xs {
			xs[i] = int(r.Uint64() % 1000)
		}
		c := &caseT{Site: "Seq", Stage: "Seq/ToSeq", Inputs: [][]int{xs}}
		var got []int
		if p := common.Catch(func() { got = pipe.ToSeq(pipe.Seq(xs...)) }); p != nil {
			rec.Violate("C05/Seq/panic", fmt.Sprint(p), c)
		} else if !slices.Equal(got, xs) && !(len(got) == 0 && len(xs) == 0) {
			rec.Violate("C05/Seq/result", fmt.Sprintf("ToSeq(Seq(%v)) = %v", xs, got), c)
		}
		rec.Eval(fmt.Sprint("seq", xs), len(xs) > 1)
	}
}

package envsched

import (
	"fmt"
	"testing"

	"verif/harness/common"
)

// C06 — every stage closes, terminates on cancel, never leaks or panics, and what it
// delivered is always a prefix of the uncancelled result: all orderings of the
// environment's moves (send, close, receive, cancel) on tiny configurations, random
// longer ones with bursts.

type c06Stage struct {
	stage, mode string
	fails       bool // make some elements fail (StdErr variants, Try mode, fail-fast)
	source      bool
	noErr       bool // nobody ever receives from the error output
}

var c06Stages = []c06Stage{
	{"Map", "pure", false, false, false}, {"Map+StdErr", "try", true, false, false}, {"FMap", "lift", false, false, false}, {"FMap+StdErr", "try", true, false, false},
	{"Filter", "pure", false, false, false}, {"ForEach", "pure", false, false, false}, {"Void", "pure", false, false, false}, {"Fold", "pure", false, false, false},
	{"Partition", "pure", false, false, false}, {"Join", "pure", false, false, false}, {"Take", "pure", false, false, false}, {"TakeWhile", "pure", false, false, false},
	{"Throttling", "pure", false, false, false},
	{"Emit", "pure", false, true, false}, {"Unfold", "pure", false, true, false}, {"Emit+StdErr", "try", true, true, false},
	// fail-fast failures, with and without a reader on the error output
	{"Map", "lift", true, false, true}, {"Map", "lift", true, false, false}, {"FMap", "lift", true, false, true}, {"Map", "try", true, false, true},
	{"Emit", "lift", true, true, true}, {"Unfold", "lift", true, true, true}, {"Emit", "try", true, true, true},
	// predicates that fail (an error counts as false); for Partition the right side may never be read
	{"Partition", "lift", true, false, true}, {"Partition", "try", true, false, false}, {"Filter", "lift", true, false, false}, {"TakeWhile", "try", true, false, false},
}

func (st c06Stage) site() string {
	if (st.stage == "Partition" || st.stage == "Filter" || st.stage == "TakeWhile") && st.fails {
		return st.stage + "/" + st.mode
	}
	if st.mode == "pure" || st.stage == "Map+StdErr" || st.stage == "FMap+StdErr" || st.stage == "Emit+StdErr" || (st.stage == "FMap" && !st.fails) {
		return st.stage
	}
	return st.stage + "/" + st.mode
}

func cancelBound(c *caseT) int {
	switch c.Stage {
	case "Emit", "Emit+StdErr":
		// one tick for the sleep in progress, then each tick the stage either exits or (select may
		// legally prefer the ready send arm) parks one more value in the output buffer / hands one
		// more error of a failing index to the error channel: cap + 2, plus one per failing index
		// and per error-buffer slot in Try mode.
		return 2*c.Cap + 2 + len(c.Fail)
	case "Unfold":
		if c.Delay > 0 {
			// the step function sleeps (less than a tick): one tick for the call in progress, then at most one
			// more value per free buffer slot, each followed by another call
			return c.Cap + 2
		}
	}
	return 0
}

func hasMove(script []string, m byte) bool {
	for _, s := range script {
		if s[0] == m {
			return true
		}
	}
	return false
}

func c06Hooks() hooks {
	return hooks{online: func(w *world) { w.monitorSource() }, bound: cancelBound}
}

func genC06(t *testing.T) {
	n := 0
	run := func(c *caseT) {
		n++
		if n%common.NBatch != common.Batch {
			return
		}
		if hasMove(c.Script, 'X') {
			c.End = "cancel"
			if n%3 == 0 {
				c.End = "cancel-drain" // consumers keep draining after cancel instead of going away
			}
		} else if !isSource(c.Stage) {
			c.End = "complete"
		} else {
			c.End = "cancel" // a source only ends by cancel
		}
		runCase(t, c, c06Hooks())
	}
	maxLen := common.Pick(2, 3)
	const tick = 1000000
	for _, st := range c06Stages {
		for _, cp := range []int{0, 1, 2, 3} {
			if common.Tier == "quick" && cp == 3 {
				continue
			}
			for ln := 0; ln <= maxLen; ln++ {
				base := &caseT{Site: st.site(), Stage: st.stage, Cap: cp, Mode: st.mode, Monoid: "poly", Tick: tick, FSeed: uint64(ln + cp)}
				var seqs [][]string
				switch {
				case st.source:
					if ln == 0 {
						continue
					}
					base.N = 5 // Unfold seed
					if st.fails {
						base.Fail = []int{1}
					}
					seqs = [][]string{rep("R0", ln), rep(fmt.Sprintf("A%d", tick), ln), {"X"}}
					if st.stage != "Emit+StdErr" && !st.noErr {
						seqs = append(seqs, []string{"E0"})
					}
					if st.stage == "Unfold" && st.fails {
						base.Fail = []int{base.next(base.N)} // the second application of f fails
					}
				case st.stage == "Join":
					l2 := ln / 2
					base.Inputs = [][]int{ids(100, ln-l2), ids(200, l2)}
					seqs = [][]string{append(rep("S0", ln-l2), "C0"), append(rep("S1", l2), "C1"), rep("R0", min(ln, 2)), {"X"}}
				default:
					base.Inputs = [][]int{ids(100, ln)}
					if st.fails && ln > 0 {
						base.Fail = []int{101}
					}
					if st.stage == "Take" {
						base.N = 1 + ln/2
					}
					if st.stage == "Throttling" {
						base.N = 1
					}
					seqs = append([][]string{append(rep("S0", ln), "C0")}, consumerSeqs(st.stage, min(ln, 2))...)
					if st.stage == "Map+StdErr" || st.stage == "FMap+StdErr" || st.noErr {
						seqs = [][]string{append(rep("S0", ln), "C0"), rep("R0", min(ln, 2))}
					}
					if st.fails && ln > 1 && (st.stage == "Partition" || st.stage == "Filter" || st.stage == "TakeWhile") {
						base.Fail = base.Inputs[0][1:] // everything after the first element fails
					}
					if st.stage == "Throttling" {
						seqs = append(seqs, rep(fmt.Sprintf("A%d", tick), min(ln, 2)))
					}
					seqs = append(seqs, []string{"X"})
				}
				interleavings(seqs, func(script []string) {
					c := *base
					c.Script = script
					run(&c)
				})
				// the same without cancel (completion end game) — one canonical order per configuration
				if !st.source {
					c := *base
					c.Script = nil
					for _, s := range seqs[:len(seqs)-1] {
						c.Script = append(c.Script, s...)
					}
					run(&c)
				}
			}
		}
	}
	rec.Count("max_exhaustive_input_length", int64(maxLen))

	nr := common.Pick(3000, 200000)
	for k := 0; k < nr; k++ {
		r := common.RngN("c06", uint64(k))
		st := c06Stages[r.IntN(len(c06Stages))]
		cp := wide(r, 6, 16, 64)
		ln := wide(r, 25, 80)
		c := &caseT{Site: st.site(), Stage: st.stage, Cap: cp, Mode: st.mode, Monoid: "poly", Tick: tick, FSeed: r.Uint64() % 100000}
		var seqs [][]string
		switch {
		case st.source:
			c.N = 1 + r.IntN(50)
			if st.fails {
				for i := 0; i < ln; i++ {
					if r.IntN(3) == 0 {
						c.Fail = append(c.Fail, i)
					}
				}
			}
			seqs = [][]string{rep("R0", r.IntN(ln+1)), rep(fmt.Sprintf("A%d", tick), r.IntN(ln+2))}
			if st.stage != "Emit+StdErr" && !st.noErr {
				seqs = append(seqs, rep("E0", r.IntN(2)))
			}
			if st.stage == "Unfold" && st.fails {
				x := c.N
				for k := r.IntN(6); k > 0; k-- {
					x = c.next(x)
				}
				c.Fail = []int{x}
			}
		case st.stage == "Join":
			ni := 1 + r.IntN(4)
			for i := 0; i < ni; i++ {
				l := r.IntN(ln/ni + 2)
				c.Inputs = append(c.Inputs, ids(1000*(i+1), l))
				p := rep(fmt.Sprintf("S%d", i), l)
				if r.IntN(3) > 0 {
					p = append(p, fmt.Sprintf("C%d", i))
				}
				seqs = append(seqs, p)
			}
			seqs = append(seqs, rep("R0", r.IntN(ln+2)))
		default:
			c.Inputs = [][]int{ids(1000, ln)}
			if st.fails {
				for _, x := range c.Inputs[0] {
					if r.IntN(3) == 0 {
						c.Fail = append(c.Fail, x)
					}
				}
			}
			if st.stage == "Take" {
				c.N = 1 + r.IntN(ln+2)
			}
			if st.stage == "Throttling" {
				c.N = 1 + r.IntN(4)
				seqs = append(seqs, rep(fmt.Sprintf("A%d", tick), r.IntN(ln+1)))
			}
			p := rep("S0", r.IntN(ln+1))
			if r.IntN(3) > 0 {
				p = append(p, "C0")
			}
			seqs = append(seqs, p)
			cs := consumerSeqs(st.stage, r.IntN(ln+2))
			if st.stage == "Map+StdErr" || st.stage == "FMap+StdErr" || st.noErr {
				cs = cs[:1]
			}
			seqs = append(seqs, cs...)
		}
		if r.IntN(5) > 0 || st.source {
			seqs = append(seqs, []string{"X"})
		}
		c.Script = randInterleave(r, seqs, []int{0, 0, 25, 70}[r.IntN(4)])
		run(c)
	}
	if common.Batch == 0 {
		typedNilFailures("C06")
	}
	progsC06(t)
}

func isSource(stage string) bool {
	return stage == "Emit" || stage == "Unfold" || stage == "Emit+StdErr"
}

package envsched

import (
	"fmt"
	"slices"
	"strings"
	"testing"

	"verif/harness/common"
)

// C07 — fail-fast (Lift/LiftF) and try-and-continue (Try/TryF) for every fault pattern:
// all subsets of failing positions up to a bound, random longer ones, x stages x capacities
// x consumer disciplines on the value and error channels.

func subsetOf(in []int, mask int) []int {
	var f []int
	for i, x := range in {
		if mask&(1<<i) != 0 {
			f = append(f, x)
		}
	}
	return f
}

// consumer disciplines: how the single receives on values (R0) and errors (E0) are ordered
// relative to the producer; the end game always drains both concurrently.
func disciplines(n int, r rng) [][]string {
	prod := append(rep("S0", n), "C0")
	rs, es := rep("R0", n+1), rep("E0", n+1)
	var out [][]string
	cat := func(parts ...[]string) []string {
		var s []string
		for _, p := range parts {
			s = append(s, p...)
		}
		return s
	}
	out = append(out, cat(prod, rs, es)) // producer first, values then errors
	out = append(out, cat(es, rs, prod)) // consumers waiting first, errors first
	var alt []string
	for i := 0; i <= n; i++ {
		alt = append(alt, "R0", "E0")
		if i < len(prod) {
			alt = append(alt, prod[i])
		}
	}
	out = append(out, alt)                                             // alternating
	out = append(out, randInterleave(r, [][]string{prod, rs, es}, 0))  // random, waited
	out = append(out, randInterleave(r, [][]string{prod, rs, es}, 60)) // random, bursts
	out = append(out, cat([]string{"D0!", "F0!"}, prod))               // two independent always-ready consumers
	return out
}

// c07FailFast: under Lift/LiftF, once the failing element has been sent the stage must deliver the
// error, close both channels and stop — whether or not its input is ever closed — and must not have
// taken anything after the failing element from its input.
func c07FailFast(w *world) {
	c := w.c
	if c.Mode != "lift" || len(w.ins) == 0 {
		return
	}
	in := w.ins[0].snap()
	k := -1
	for i, x := range in.issued {
		if c.fails(x) {
			k = i
			break
		}
	}
	if k < 0 {
		return
	}
	w.drainAll()
	w.quiesce()
	in = w.ins[0].snap()
	if len(in.sent) <= k {
		return // the failing element never reached the stage (input closed before)
	}
	for _, p := range w.allPorts() {
		if s := p.snap(); !s.closed {
			w.bad("not-closed", "fail-fast: element %d failed, both channels are being read, the input is still open: %s did not close (received %v)", in.issued[k], p.name, s.ints())
		}
	}
	if consumed := len(in.sent) - in.buffered; consumed > k+1 {
		w.bad("calls", "fail-fast: the stage took %d elements from its input although element #%d (%d) failed", consumed, k+1, in.issued[k])
	}
	if g := w.libGoroutines(); g > 0 {
		w.bad("leak", "fail-fast: %d library goroutine(s) still alive after the failure was delivered and both channels drained:\n%s", g, strings.Join(w.census(), "\n--\n"))
	}
}

func c07Final(w *world) {
	c := w.c
	if !isSource(c.Stage) {
		c07FailFast(w)
		return
	}
	// sources: both consumers were draining while the clock advanced T ticks (Emit) / until the failure (Unfold)
	vs := w.outs[0].snap()
	es := w.errs[0].snap()
	got, gotE := vs.ints(), es.ints()
	calls, _, _ := w.callLog()
	switch {
	case c.Stage == "Emit" && c.Mode == "try":
		T := len(calls) // one call per elapsed tick
		var vals, errs []int
		for i := 0; i < T; i++ {
			if c.fails(i) {
				errs = append(errs, i)
			} else {
				vals = append(vals, c.emitV(i))
			}
		}
		if T < c.N {
			w.bad("result", "Emit made %d calls in %d ticks with both channels read", T, c.N)
		}
		if !slices.Equal(got, vals) {
			w.bad("result", "Emit/Try delivered %v after %d calls, expected %v (failing indices %v)", got, T, vals, c.Fail)
		}
		if !slices.Equal(gotE, errs) {
			w.bad("errors", "Emit/Try delivered errors %v after %d calls, expected %v", gotE, T, errs)
		}
		for i, x := range calls {
			if x != i {
				w.bad("calls", "Emit called f on %v, expected 0,1,2,...", calls)
				break
			}
		}
	default: // fail-fast
		vals, errs, ends := c.expectSource(len(got) + 1)
		if !ends {
			return // no failure inside the explored window: nothing more to say than the online prefix monitor
		}
		if !slices.Equal(got, vals) {
			w.bad("result", "%s fail-fast delivered %v, expected %v then the failure", c.Stage, got, vals)
		}
		if !slices.Equal(gotE, errs) {
			w.bad("errors", "%s fail-fast delivered errors %v, expected exactly %v", c.Stage, gotE, errs)
		}
		if !vs.closed || !es.closed {
			w.bad("not-closed", "%s fail-fast: after the failure value channel closed=%v error channel closed=%v", c.Stage, vs.closed, es.closed)
		}
		want := calls
		if c.Stage == "Emit" {
			want = nil
			for i := 0; i <= errs[0]; i++ {
				want = append(want, i)
			}
		} else {
			want = vals
		}
		if !slices.Equal(calls, want) {
			w.bad("calls", "%s fail-fast: f was called on %v, expected %v (nothing after the failing element)", c.Stage, calls, want)
		}
		if g := w.libGoroutines(); g > 0 {
			w.bad("leak", "%s fail-fast: %d library goroutine(s) alive after the failure was delivered", c.Stage, g)
		}
	}
}

func c07Hooks() hooks {
	return hooks{online: func(w *world) { w.monitorSource() }, preEnd: c07Final, bound: cancelBound}
}

func genC07(t *testing.T) {
	n := 0
	run := func(c *caseT) {
		n++
		if n%common.NBatch != common.Batch {
			return
		}
		runCase(t, c, c07Hooks())
	}
	maxN := common.Pick(6, 8)
	caps := []int{0, 1, 2, 4}
	const tick = 1000000
	k := 0
	for ln := 0; ln <= maxN; ln++ {
		in := ids(100*ln, ln)
		for mask := 0; mask < 1<<ln; mask++ {
			fail := subsetOf(in, mask)
			for _, st := range []string{"Map", "FMap"} {
				for _, mode := range []string{"lift", "try"} {
					for _, cp := range caps {
						k++
						r := common.RngN("c07d", uint64(k))
						ds := disciplines(ln, r)
						// every configuration gets two disciplines (rotating), the thorough tier all of them
						pick := []int{k % len(ds), (k/len(ds) + 3) % len(ds)}
						if common.Thorough() {
							pick = []int{0, 1, 2, 3, 4, 5}
						}
						for j, d := range pick {
							sc := ds[d]
							partial := st == "FMap" && (k+j)%3 == 0 // the failing arrows emit part of their output first
							if (k+j)%2 == 0 {                       // the producer never closes: only the end game does, after the fail-fast check
								sc = slices.DeleteFunc(slices.Clone(sc), func(m string) bool { return m[0] == 'C' })
							}
							run(&caseT{Site: st + "/" + mode, Stage: st, Cap: cp, Mode: mode, Inputs: [][]int{in}, Fail: fail, FSeed: uint64(k % 97), Script: sc, End: "complete", Tick: tick, Partial: partial})
						}
					}
				}
			}
			// sources: failure bitmap over call indices (Emit) / over the successive values (Unfold)
			if ln >= 1 {
				idx := make([]int, ln)
				for i := range idx {
					idx[i] = i
				}
				for _, cp := range []int{0, 1, 2} {
					for _, mode := range []string{"lift", "try"} {
						sc := []string{"D0!", "F0"}
						sc = append(sc, rep(fmt.Sprintf("A%d", tick), ln+1)...)
						run(&caseT{Site: "Emit/" + mode, Stage: "Emit", Cap: cp, Mode: mode, N: ln, Fail: subsetOf(idx, mask), FSeed: uint64(k % 97), Script: sc, End: "cancel", Tick: tick})
					}
				}
				if mask != 0 && mask&(mask-1) == 0 { // Unfold: the step function fails at exactly one position of the orbit
					c := &caseT{Site: "Unfold/lift", Stage: "Unfold", Cap: (ln + mask) % 3, Mode: "lift", N: 3 + ln, FSeed: uint64(k % 97), End: "cancel", Tick: tick}
					x := c.N
					for i := 0; mask>>i != 1; i++ {
						x = c.next(x)
					}
					c.Fail = []int{x}
					for _, sc := range [][]string{{"D0!", "F0"}, {"F0", "D0"}, append(rep("R0", ln+2), "E0", "E0")} {
						c2 := *c
						c2.Script = sc
						run(&c2)
					}
				}
			}
		}
	}
	rec.Count("max_exhaustive_fault_subset_length", int64(maxN))
	rec.SetExhaustive(false)

	nr := common.Pick(1500, 100000)
	for i := 0; i < nr; i++ {
		r := common.RngN("c07", uint64(i))
		ln := 8 + r.IntN(33)
		in := ids(1000*r.IntN(9), ln)
		var fail []int
		dens := []int{0, 5, 20, 50, 90, 100}[r.IntN(6)]
		for _, x := range in {
			if r.IntN(100) < dens {
				fail = append(fail, x)
			}
		}
		st := []string{"Map", "FMap"}[r.IntN(2)]
		mode := []string{"lift", "try"}[r.IntN(2)]
		ds := disciplines(ln, r)
		sc := ds[r.IntN(len(ds))]
		if r.IntN(2) == 0 {
			sc = slices.DeleteFunc(slices.Clone(sc), func(m string) bool { return m[0] == 'C' })
		}
		run(&caseT{Site: st + "/" + mode, Stage: st, Cap: wide(r, 9, 16, 64), Mode: mode, Inputs: [][]int{in}, Fail: fail, FSeed: r.Uint64() % 1000, Script: sc, End: "complete", Tick: tick, Partial: st == "FMap" && r.IntN(2) == 0})
	}
	if common.Batch == 0 {
		typedNilFailures("C07")
	}
	progsC07(t)
}

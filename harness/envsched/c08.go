package envsched

import (
	"context"
	"fmt"
	"os"
	"runtime"
	"slices"
	"sync"
	"sync/atomic"
	"testing"
	"time"

	"verif/harness/common"

	"github.com/anishathalye/porcupine"
	"github.com/fogfish/golem/pipe/v2"
)

// C08 — the unbounded channel (pipe.New): senders never wait for the receiver; FIFO, lossless,
// duplicate-free; values whose send completed before cancel are still delivered before the
// receive side closes; closing the send side is a clean end of stream.

func c08Online(w *world) {
	if w.c.Stage != "New" {
		return
	}
	// (a) a send never waits for the receiver (before cancel / sender close)
	closedByUs := false
	for _, p := range w.ins {
		p.mu.Lock()
		closedByUs = closedByUs || p.closedByU || p.closeQueued
		p.mu.Unlock()
	}
	if !w.cancelled && !closedByUs {
		for _, p := range w.ins {
			s := p.snap()
			if len(s.sent)+len(s.panicked) < len(s.issued) {
				w.bad("send-blocked", "a send is still waiting at a quiescent point: %s issued %d sends, %d completed (receiver has taken %d values, capacity %d)",
					p.name, len(s.issued), len(s.sent), len(w.outs[0].snap().got), w.c.Cap)
			}
			if len(s.panicked) > 0 {
				w.bad("panic", "send on the unbounded channel panicked before cancel/close: %v", s.panicked)
			}
		}
	}
	// (c) the receive side does not close before cancel or sender close
	o := w.outs[0].snap()
	if o.closed && !w.cancelled && !closedByUs {
		w.bad("closed-early", "receive side closed without cancel or sender close (delivered %d values)", len(o.got))
	}
}

// c08Final: drain and judge conservation / order.
func c08Final(w *world) {
	if w.c.Stage != "New" {
		return
	}
	w.drainAll()
	w.quiesce()
	o := w.outs[0].snap()
	got := o.ints()
	// per-sender order, no duplicates, nothing invented
	var issued [][]int
	done := map[int]bool{}   // sends that completed
	before := map[int]bool{} // ... before cancel() was called
	for _, p := range w.ins {
		s := p.snap()
		issued = append(issued, s.issued)
		for i, v := range s.sent {
			done[v] = true
			if !w.cancelled || s.sentSeq[i] < w.cancelSeq {
				before[v] = true
			}
		}
	}
	if !interleaveSub(got, issued) {
		w.bad("fifo", "receiver obtained %v: not an order-preserving, duplicate-free selection of what was sent %v", clip(got), clipAll(issued))
	}
	recvd := map[int]bool{}
	for _, v := range got {
		recvd[v] = true
	}
	var lost []int
	for v := range before {
		if !recvd[v] {
			lost = append(lost, v)
		}
	}
	slices.Sort(lost)
	closedByUs := false
	for _, p := range w.ins {
		p.mu.Lock()
		closedByUs = closedByUs || p.closedByU
		p.mu.Unlock()
	}
	if w.cancelled || closedByUs {
		if len(lost) > 0 {
			cls := "lost"
			if closedByUs && !w.cancelled {
				cls = "sender-close"
			}
			w.bad(cls, "%d value(s) whose send had completed (before cancel: %v, sender closed: %v) were never delivered: %v (capacity %d, delivered %d)", len(lost), w.cancelled, closedByUs, clip(lost), w.c.Cap, len(got))
		}
		if !o.closed {
			cls := "not-closed"
			if closedByUs && !w.cancelled {
				cls = "sender-close"
			}
			w.bad(cls, "receive side never closed after cancel=%v / sender close=%v although it was drained (delivered %d)", w.cancelled, closedByUs, len(got))
		}
		if g := w.libGoroutines(); g > 0 && o.closed {
			w.bad("not-closed", "receive side closed but %d library goroutine(s) remain", g)
		}
	}
	if len(w.ins) == 1 && !w.cancelled {
		// single sender, no cancel: exact FIFO equality with completed sends
		s := w.ins[0].snap()
		if !slices.Equal(got, s.sent) {
			w.bad("fifo", "single sender sent %v, receiver drained %v", clip(s.sent), clip(got))
		}
	}
	rec.Max("max_backlog_seen", int64(len(got)))
}

func interleaveSub(got []int, inputs [][]int) bool {
	owner := map[int]int{}
	idx := map[int]int{}
	for i, in := range inputs {
		for k, x := range in {
			owner[x] = i
			idx[x] = k
		}
	}
	last := make([]int, len(inputs))
	for i := range last {
		last[i] = -1
	}
	seen := map[int]bool{}
	for _, x := range got {
		i, ok := owner[x]
		if !ok || seen[x] || idx[x] <= last[i] {
			return false
		}
		seen[x] = true
		last[i] = idx[x]
	}
	return true
}

func clip(xs []int) []int {
	if len(xs) > 24 {
		return append(slices.Clone(xs[:24]), -len(xs))
	}
	return xs
}
func clipAll(xs [][]int) [][]int {
	out := make([][]int, len(xs))
	for i := range xs {
		out[i] = clip(xs[i])
	}
	return out
}

var raceMode = os.Getenv("VERIF_MODE") == "race"

// sendRacesCancel: may a send be in flight when (or after) the context is cancelled?
func sendRacesCancel(script []string) bool {
	cancelled, inflight := false, false
	for _, m := range script {
		switch {
		case m[0] == 'S':
			if cancelled {
				return true
			}
			inflight = inflight || m[len(m)-1] == '!'
		case m[0] == 'X':
			if inflight {
				return true
			}
			cancelled = true
		}
		if m[len(m)-1] != '!' {
			inflight = false // waited: every send issued so far has completed (sends never block before cancel)
		}
	}
	return false
}

func c08Hooks() hooks { return hooks{online: c08Online, final: c08Final} }

func genC08(t *testing.T) {
	n := 0
	run := func(c *caseT) {
		n++
		if n%common.NBatch != common.Batch {
			return
		}
		c.Site, c.Stage, c.End = "New", "New", "none"
		if raceMode && sendRacesCancel(c.Script) {
			// pipe.New closes the send side on cancel; a user send racing with that close is reported by the
			// race detector (close vs send) and is a documented consequence of the API, so these scripts run
			// in the plain build only. Everything else also runs under the race detector.
			return
		}
		runCase(t, c, c08Hooks())
	}
	S := func(k int, burst bool) []string {
		if burst {
			s := rep("S0!", k)
			return append(s, "W")
		}
		return rep("S0", k)
	}
	for _, cp := range []int{0, 1, 2, 3, 4, 8} {
		for k := 0; k <= common.Pick(5, 8); k++ {
			in := [][]int{ids(100, 3*k+6)}
			// fill / drain cycles: the queue empties and refills (node recycling)
			var cyc []string
			for round := 0; round < 3; round++ {
				cyc = append(cyc, S(k, false)...)
				cyc = append(cyc, rep("R0", k)...)
			}
			run(&caseT{Cap: cp, Inputs: in, Script: cyc, Comment: "fill/drain cycles"})
			run(&caseT{Cap: cp, Inputs: in, Script: append(slices.Clone(cyc), "X"), Comment: "fill/drain cycles then cancel"})
			// burst of sends racing with cancel (values parked in the input buffer)
			run(&caseT{Cap: cp, Inputs: in, Script: append(rep("S0!", k), "X"), Comment: "burst(send x k, cancel)"})
			run(&caseT{Cap: cp, Inputs: in, Script: append(append(rep("S0", 2), rep("S0!", k)...), "X"), Comment: "backlog, burst, cancel"})
			// sends completed by the same goroutine that then cancels at once (values still parked in the input buffer)
			run(&caseT{Cap: cp, Inputs: in, Script: []string{fmt.Sprintf("B%d!", k), "X"}, Comment: "driver sends k values then cancels at once"})
			run(&caseT{Cap: cp, Inputs: in, Script: []string{"S0", "S0", "R0", fmt.Sprintf("B%d!", k), "X!", "R0"}, Comment: "backlog, then k synchronous sends and cancel at once"})
			run(&caseT{Cap: cp, Inputs: in, Script: []string{fmt.Sprintf("B%d!", k), "C0!", "X"}, Comment: "synchronous sends, sender close, cancel"})
			// cancel with backlog and slow receiver
			run(&caseT{Cap: cp, Inputs: in, Script: append(append(S(k+2, false), "X"), rep("R0", 2)...), Comment: "cancel with backlog, slow receiver"})
			run(&caseT{Cap: cp, Inputs: in, Script: append(append(S(k+2, false), "R0", "X!"), "R0"), Comment: "cancel racing a receive"})
			// sender closes with backlog
			run(&caseT{Cap: cp, Inputs: in, Script: append(S(k, false), "C0"), Comment: "sender close with backlog"})
			run(&caseT{Cap: cp, Inputs: in, Script: append(append(S(k, false), "R0"), "C0!", "R0"), Comment: "sender close racing a receive"})
			run(&caseT{Cap: cp, Inputs: in, Script: append(S(k, true), "C0!", "X"), Comment: "sender close racing cancel"})
		}
	}
	// busy periods (empty -> k values -> empty) of lengths around powers of two, repeated: block / segment boundaries
	for _, k := range []int{7, 8, 9, 15, 16, 17, 31, 32, 33, 48, 64, 65, 128} {
		for _, cp := range []int{0, 1, 4} {
			var cyc []string
			for round := 0; round < 3; round++ {
				cyc = append(cyc, S(k, true)...)
				cyc = append(cyc, rep("R0!", k)...)
				cyc = append(cyc, "W")
			}
			cyc = append(cyc, "S0", "S0", "R0", "R0")
			run(&caseT{Cap: cp, Inputs: [][]int{ids(1, 3*k+4)}, Script: cyc, Comment: "busy periods of exactly k values, then refill"})
			run(&caseT{Cap: cp, Inputs: [][]int{ids(1, 3*k+4)}, Script: append(slices.Clone(cyc), "X"), Comment: "busy periods of exactly k values, refill, cancel"})
		}
	}
	// long backlogs (never blocks the sender whatever the backlog)
	for _, bl := range []int{100, 1000, common.Pick(2000, 10000)} {
		for _, cp := range []int{0, 1, 7} {
			run(&caseT{Cap: cp, Inputs: [][]int{ids(1, bl)}, Script: append(S(bl, true), "R0", "R0", "X"), Comment: "long backlog then cancel"})
			run(&caseT{Cap: cp, Inputs: [][]int{ids(1, bl)}, Script: append(S(bl, true), "D0"), Comment: "long backlog then drain"})
		}
	}
	// random scripts, 1-3 senders
	nr := common.Pick(2500, 150000)
	for i := 0; i < nr; i++ {
		r := common.RngN("c08", uint64(i))
		ns := 1 + r.IntN(3)
		c := &caseT{Cap: wide(r, 9, 17, 64, 256), Senders: ns}
		var seqs [][]string
		total := 0
		for s := 0; s < ns; s++ {
			l := r.IntN(14)
			total += l
			c.Inputs = append(c.Inputs, ids(1000*(s+1), l))
			seqs = append(seqs, rep(fmt.Sprintf("S%d", s), l))
		}
		seqs = append(seqs, rep("R0", r.IntN(total+2)))
		x := r.IntN(4)
		if ns > 1 && x > 0 {
			x = 3 // with several senders on one channel nobody closes it (close racing another sender is a user error)
		}
		switch x {
		case 0:
			seqs = append(seqs, []string{"X"})
		case 1:
			seqs = append(seqs, []string{"C0"})
		case 2:
			seqs = append(seqs, []string{"X"}, []string{"C0"})
		}
		if ns == 1 && r.IntN(3) == 0 {
			seqs = append(seqs, []string{fmt.Sprintf("B%d!", 1+r.IntN(6))})
		}
		c.Script = randInterleave(r, seqs, []int{0, 0, 30, 80}[r.IntN(4)])
		c.Comment = "random"
		run(c)
	}
	progsC08(t)
	// real-time part (no bubble): linearizability of concurrent histories and a long soak
	nh := common.Pick(300, 6000)
	if !raceMode {
		nh = 0 // the real-time parts run in the race build
	}
	for i := 0; i < nh; i++ {
		if i%common.NBatch != common.Batch {
			continue
		}
		linearCase(i)
	}
	if common.Batch == 0 && raceMode {
		nilElemsNew("C08")
		soakNew(common.Pick(30000, 300000), 4, 2)
		soakNew(common.Pick(30000, 300000), 1, 1)
	}
}

// ---------------------------------------------------------------- porcupine: FIFO-queue linearizability

type qIn struct {
	Enq bool
	V   int
}

var queueModel = porcupine.Model{
	Init: func() any { return []int(nil) },
	Step: func(state, in, out any) (bool, any) {
		q := state.([]int)
		i := in.(qIn)
		if i.Enq {
			return true, append(slices.Clone(q), i.V)
		}
		if len(q) == 0 || q[0] != out.(int) {
			return false, q
		}
		return true, slices.Clone(q[1:])
	},
	Equal: func(a, b any) bool { return slices.Equal(a.([]int), b.([]int)) },
	DescribeOperation: func(in, out any) string {
		i := in.(qIn)
		if i.Enq {
			return fmt.Sprintf("send(%d)", i.V)
		}
		return fmt.Sprintf("recv()->%v", out)
	},
}

func linearCase(k int) {
	r := common.RngN("lin", uint64(k))
	senders, receivers := 1+r.IntN(4), 1+r.IntN(3)
	per := 2 + r.IntN(8)
	capacity := r.IntN(5)
	c := &caseT{Site: "New", Stage: "New/linearizable", Cap: capacity, Senders: senders, N: receivers, FSeed: uint64(k), Comment: fmt.Sprintf("%d senders x %d values, %d receivers, real time", senders, per, receivers)}
	id := common.ID(fmt.Sprint("lin", k))
	if common.Skip(id) {
		return
	}
	rec.Begin(id, c)
	defer rec.End(id)
	ctx, cancel := context.WithCancel(context.Background())
	eg, in := pipe.New[int](ctx, capacity)
	var clock atomic.Int64
	var mu sync.Mutex
	var ops []porcupine.Operation
	var wg sync.WaitGroup
	total := senders * per
	var recvd atomic.Int64
	for s := 0; s < senders; s++ {
		wg.Add(1)
		go func(s int) {
			defer wg.Done()
			jit := common.RngN("linj", uint64(k*16+s))
			for i := 0; i < per; i++ {
				v := (s+1)*1000 + i
				for j := jit.IntN(3); j > 0; j-- {
					runtime.Gosched()
				}
				t0 := clock.Add(1)
				in <- v
				t1 := clock.Add(1)
				mu.Lock()
				ops = append(ops, porcupine.Operation{ClientId: s, Input: qIn{true, v}, Call: t0, Output: 0, Return: t1})
				mu.Unlock()
			}
		}(s)
	}
	for q := 0; q < receivers; q++ {
		wg.Add(1)
		go func(q int) {
			defer wg.Done()
			jit := common.RngN("linr", uint64(k*16+q))
			for recvd.Add(1) <= int64(total) {
				for j := jit.IntN(4); j > 0; j-- {
					runtime.Gosched()
				}
				t0 := clock.Add(1)
				v, ok := <-eg
				t1 := clock.Add(1)
				if !ok {
					return
				}
				mu.Lock()
				ops = append(ops, porcupine.Operation{ClientId: senders + q, Input: qIn{false, 0}, Call: t0, Output: v, Return: t1})
				mu.Unlock()
			}
		}(q)
	}
	done := make(chan struct{})
	go func() { wg.Wait(); close(done) }()
	select {
	case <-done:
	case <-time.After(60 * time.Second):
		rec.Inconclusive("linearizability history did not finish within the 60 s wall-clock watchdog (inconclusive, not a verdict)")
		cancel()
		return
	}
	cancel()
	res, _ := porcupine.CheckOperationsVerbose(queueModel, ops, 10*time.Second)
	rec.Eval(fmt.Sprint("lin", k, len(ops)), true)
	rec.Count("porcupine_histories", 1)
	rec.Count("porcupine_operations", int64(len(ops)))
	switch res {
	case porcupine.Illegal:
		c.Comment += fmt.Sprintf("; history: %v", describe(ops))
		rec.Violate("C08/New/linearizability", fmt.Sprintf("history of %d operations is not linearizable as a FIFO queue", len(ops)), c)
	case porcupine.Unknown:
		rec.Count("porcupine_timeouts", 1)
	}
	if rec.WantSample() {
		rec.Sample(map[string]any{"case": c, "operations": len(ops), "linearizable": res == porcupine.Ok, "history_head": describe(ops[:min(len(ops), 10)])})
	}
}

func describe(ops []porcupine.Operation) []string {
	out := make([]string, len(ops))
	for i, o := range ops {
		out[i] = fmt.Sprintf("c%d[%d,%d]%s", o.ClientId, o.Call, o.Return, queueModel.DescribeOperation(o.Input, o.Output))
	}
	return out
}

// ---------------------------------------------------------------- real-time soak

func soakNew(total, senders, receivers int) {
	c := &caseT{Site: "New", Stage: "New/soak", Senders: senders, N: total, Comment: fmt.Sprintf("real-time soak %d values %d senders %d receivers", total, senders, receivers)}
	id := common.ID(fmt.Sprint("soak", total, senders, receivers))
	if common.Skip(id) {
		return
	}
	rec.Begin(id, c)
	defer rec.End(id)
	ctx, cancel := context.WithCancel(context.Background())
	defer cancel()
	eg, in := pipe.New[int](ctx, 3)
	per := total / senders
	var wg sync.WaitGroup
	for s := 0; s < senders; s++ {
		wg.Add(1)
		go func(s int) {
			defer wg.Done()
			for i := 0; i < per; i++ {
				in <- s*10_000_000 + i
				if i%97 == 0 {
					runtime.Gosched()
				}
			}
		}(s)
	}
	got := make([][]int, receivers)
	var rg sync.WaitGroup
	var cnt atomic.Int64
	finished := make(chan struct{})
	for q := 0; q < receivers; q++ {
		rg.Add(1)
		go func(q int) {
			defer rg.Done()
			for {
				select {
				case v := <-eg:
					got[q] = append(got[q], v)
					if cnt.Add(1) == int64(per*senders) {
						close(finished)
						return
					}
				case <-finished:
					return
				}
			}
		}(q)
	}
	wg.Wait()
	select {
	case <-finished:
	case <-time.After(120 * time.Second):
		rec.Inconclusive("soak did not finish within the wall-clock watchdog (inconclusive, not a verdict)")
		return
	}
	rg.Wait()
	// conservation + per-sender order within each receiver
	seen := make(map[int]int, total)
	for q := range got {
		last := map[int]int{}
		for _, v := range got[q] {
			seen[v]++
			s := v / 10_000_000
			if l, ok := last[s]; ok && v <= l {
				rec.Violate("C08/New/fifo", fmt.Sprintf("soak: receiver %d saw %d after %d from the same sender", q, v, l), c)
			}
			last[s] = v
		}
	}
	for s := 0; s < senders; s++ {
		for i := 0; i < per; i++ {
			if k := seen[s*10_000_000+i]; k != 1 {
				rec.Violate("C08/New/lost", fmt.Sprintf("soak: value %d delivered %d times", s*10_000_000+i, k), c)
				s = senders
				break
			}
		}
	}
	rec.Eval(fmt.Sprint("soak", total, senders, receivers), true)
	rec.Count("soak_values", int64(per*senders))
}

package envsched

import (
	"fmt"
	"slices"
	"sync"
	"testing"

	"verif/harness/common"
)

// C09 — fork stages apply the user function exactly once per element and deliver the multiset the
// sequential stage would, for every worker count and every completion order of in-flight calls
// (chosen through per-element virtual processing delays), with the closure/cancel/no-leak
// guarantees of C06 and no data race.

var c09Stages = []struct{ stage, mode string }{
	{"fork.Map", "pure"}, {"fork.Map", "try"}, {"fork.FMap", "lift"}, {"fork.FMap", "try"},
	{"fork.Filter", "pure"}, {"fork.Partition", "pure"}, {"fork.ForEach", "pure"}, {"fork.Void", "pure"},
	// fail-fast failures: each failing worker stops; closure / cancellation / no-leak must still hold
	{"fork.Map", "lift!"}, {"fork.FMap", "lift!"},
	// ForEach has no error output: visits that fail are still visits, and the rest of the input is visited too
	{"fork.ForEach", "lift"}, {"fork.ForEach", "try"},
}

var (
	orderMu   sync.Mutex
	orderSeen = map[string]struct{}{}
)

func c09Final(w *world) {
	// exactly-once also under cancel: no element is ever handed to the user function twice
	calls, _, n := w.callLog()
	for x, k := range n {
		if k > 1 {
			w.bad("calls", "user function was called %d times on element %d (call log %v)", k, x, calls)
			break
		}
	}
	issued := map[int]bool{}
	for _, p := range w.ins {
		for _, x := range p.snap().issued {
			issued[x] = true
		}
	}
	for _, x := range calls {
		if !issued[x] {
			w.bad("calls", "user function was called on %d, which was never sent (call log %v)", x, calls)
			break
		}
	}
	// evidence: which completion orders were seen
	if len(w.outs) > 0 {
		sig := fmt.Sprint(w.c.Stage, len(w.c.Inputs[0]), rankOrder(w.outs[0].snap().ints()))
		orderMu.Lock()
		if _, ok := orderSeen[sig]; !ok {
			orderSeen[sig] = struct{}{}
			rec.Count("distinct_output_orders_seen", 1)
		}
		orderMu.Unlock()
	}
}

// rankOrder maps a sequence to the permutation of its ranks (so different ids with the same
// relative order count once)
func rankOrder(xs []int) []int {
	out := make([]int, len(xs))
	for i, x := range xs {
		for _, y := range xs {
			if y < x {
				out[i]++
			}
		}
	}
	return out
}

func forkBound(c *caseT) int {
	n := 2
	for _, in := range c.Inputs {
		n += len(in)
	}
	return n
}

func c09Hooks() hooks { return hooks{final: c09Final, bound: forkBound} }

func genC09(t *testing.T) {
	n := 0
	run := func(c *caseT) {
		n++
		if n%common.NBatch != common.Batch {
			return
		}
		if hasMove(c.Script, 'X') {
			c.End = "cancel"
		} else {
			c.End = "complete"
		}
		if c.Mode == "lift!" {
			c.Mode = "lift"
			// the errors of fail-fast workers are not read by single receives: end game or nobody
			c.Script = slices.DeleteFunc(slices.Clone(c.Script), func(m string) bool { return m[0] == 'E' })
		}
		c.Site = c.Stage + "/" + c.Mode
		c.Tick = 1000000
		runCase(t, c, c09Hooks())
	}
	pars := []int{1, 2, 3, 4, 8}
	if common.Thorough() {
		pars = []int{1, 2, 3, 4, 5, 8, 16, 64}
	}
	maxLen := common.Pick(3, 4)
	// small configurations: all interleavings of producer / consumers (/ cancel)
	for _, st := range c09Stages {
		for _, par := range []int{1, 2, 3} {
			for ln := 0; ln <= maxLen; ln++ {
				in := ids(100, ln)
				var fail []int
				if st.mode == "try" && ln > 0 {
					fail = []int{in[ln/2]}
				}
				if st.stage == "fork.ForEach" && st.mode != "pure" {
					fail = in[:min(ln, par+1)]
				}
				if st.mode == "lift!" && ln > 0 {
					fail = in[:min(ln, par+1)] // more failing elements than workers: every worker stops
					if ln%2 == 0 {
						fail = in[ln/2:]
					}
				}
				prod := append(rep("S0", ln), "C0")
				cons := consumerSeqs(st.stage, 1)
				for _, withX := range []bool{false, true} {
					seqs := append([][]string{prod}, cons...)
					if withX {
						seqs = append(seqs, []string{"X"})
					}
					if ln >= 3 && (len(cons) > 1 || withX) { // keep the enumeration small: consumers only drain at the end
						seqs = [][]string{prod}
						if withX {
							seqs = append(seqs, []string{"X"})
						}
					}
					k := 0
					interleavings(seqs, func(script []string) {
						k++
						run(&caseT{Stage: st.stage, Mode: st.mode, Par: par, Cap: k % 3, Inputs: [][]int{in}, Fail: fail, FSeed: uint64(k), Delay: []int{0, 900}[k%2], Script: script})
					})
				}
			}
		}
	}
	rec.Count("max_exhaustive_input_length", int64(maxLen))
	// random: worker counts x inputs x delay families x scripts
	nr := common.Pick(2500, 150000)
	for i := 0; i < nr; i++ {
		r := common.RngN("c09", uint64(i))
		st := c09Stages[r.IntN(len(c09Stages))]
		par := pars[r.IntN(len(pars))]
		if r.IntN(15) == 0 {
			par = []int{16, 33, 64}[r.IntN(3)]
		}
		ln := r.IntN(61)
		if par >= 16 {
			ln = r.IntN(200)
		}
		in := ids(1000, ln)
		var fail []int
		if st.mode == "try" || st.mode == "lift!" || st.mode == "lift" {
			for _, x := range in {
				if r.IntN(4) == 0 {
					fail = append(fail, x)
				}
			}
		}
		c := &caseT{Partial: st.stage == "fork.FMap" && r.IntN(3) == 0, Stage: st.stage, Mode: st.mode, Par: par, Cap: wide(r, 5, 16, 64), Inputs: [][]int{in}, Fail: fail, FSeed: r.Uint64() % 100000, Delay: []int{0, 10, 900, 900}[r.IntN(4)]}
		prod := rep("S0", r.IntN(ln+1))
		if r.IntN(3) > 0 {
			prod = append(rep("S0", ln), "C0")
		}
		seqs := append([][]string{prod}, consumerSeqs(st.stage, r.IntN(ln+2))...)
		seqs = append(seqs, rep("A300000", r.IntN(4)))
		if r.IntN(3) == 0 {
			seqs = append(seqs, []string{"X"})
		}
		c.Script = randInterleave(r, seqs, []int{0, 30, 80}[r.IntN(3)])
		run(c)
	}
	if common.Batch == 0 {
		nilElemsFork("C09")
		soakFork(common.Pick(20000, 200000))
	}
	progsC09(t)
}

package envsched

import (
	"testing"

	"verif/harness/common"
)

// C10 — fork.Fold delivers exactly one value equal to the sequential left fold, for every worker
// count, every input (empty, shorter than the worker count) and commutative monoids with zero and
// non-zero identities; virtual delays inside Combine vary how elements are spread over workers.

var c10Monoids = []string{"sum", "prod", "max", "min", "and", "or", "xor7"}

func genC10(t *testing.T) {
	n := 0
	run := func(c *caseT) {
		n++
		if n%common.NBatch != common.Batch {
			return
		}
		c.Stage, c.End, c.Tick = "fork.Fold", "complete", 1000000
		c.Site = "fork.Fold/" + c.Monoid
		runCase(t, c, hooks{final: func(w *world) {
			o := w.outs[0].snap()
			if len(o.got) != 1 {
				w.bad("result", "fork.Fold delivered %d values %v, exactly one expected", len(o.got), o.ints())
			}
		}})
	}
	pars := []int{1, 2, 3, 4, 5, 8, 16}
	if common.Thorough() {
		pars = append(pars, 33, 64)
	}
	i := 0
	for _, mon := range c10Monoids {
		for _, par := range pars {
			for _, ln := range []int{0, 1, 2, 3, par - 1, par, par + 1, 2*par + 1, 17, 40} {
				if ln < 0 {
					continue
				}
				for rep := 0; rep < common.Pick(2, 8); rep++ {
					i++
					r := common.RngN("c10", uint64(i))
					in := make([]int, ln)
					for k := range in {
						v := int(r.Uint64())
						switch mon {
						case "prod":
							v |= 1 // odd: products never collapse to 0
						case "max":
							v = -(v & 0x7fffffff) - 1 // all negative: a zero start shows
						case "min":
							v = v&0x7fffffff + 1 // all positive
						case "and":
							v |= 0x0f0f0f0f0f
						}
						if v == 0 {
							v = 1
						}
						in[k] = v
					}
					c := &caseT{Monoid: mon, Par: par, Cap: r.IntN(5), Inputs: [][]int{in}, FSeed: r.Uint64() % 1000, Delay: []int{0, 500, 900}[r.IntN(3)]}
					prod := append(rep2("S0", ln), "C0")
					c.Script = randInterleave(r, [][]string{prod, {"R0"}, rep2("A400000", r.IntN(3))}, []int{0, 50}[r.IntN(2)])
					run(c)
				}
			}
		}
	}
	if common.Batch == 0 {
		soakFold(common.Pick(20000, 200000))
	}
	progsC10(t)
}

func rep2(m string, n int) []string { return rep(m, n) }

package envsched

import (
	"fmt"
	"slices"
	"testing"
	"time"

	"verif/harness/common"
)

// C11 — Unfold delivers seed, f(seed), ...; Emit delivers f(0), f(1), ... (failing indices skipped
// under Try), paced by the frequency: exact successive sequence for every capacity and consumer
// pace, f called on consecutive arguments once each, the k-th Emit call not before k ticks, one
// value per tick for a consumer that keeps up; both stop and close after cancel.

func c11Check(w *world) {
	c := w.c
	calls, callAt, _ := w.callLog()
	o := w.outs[0].snap()
	got := o.ints()
	tick := c.Tick
	switch c.Stage {
	case "Unfold":
		// f is applied to consecutive iterates, once each, and never runs ahead of what the buffer can hold
		vals, _, _ := c.expectSource(len(calls) + 1)
		if len(calls) > 0 && !slices.Equal(calls, vals[:min(len(vals), len(calls))]) {
			w.bad("calls", "Unfold applied f to %v, expected the consecutive iterates %v", clip(calls), clip(vals))
		}
		if len(calls) > len(got)+c.Cap+1 {
			w.bad("calls", "Unfold applied f %d times with only %d values taken and capacity %d", len(calls), len(got), c.Cap)
		}
	case "Emit":
		for k, x := range calls {
			if x != k {
				w.bad("calls", "Emit called f on %v, expected the indices 0,1,2,... once each", clip(calls))
				break
			}
			if callAt[k] < int64(k+1)*tick {
				w.bad("pace", "Emit made its call #%d (index %d) at virtual time %d ns, before %d ticks of %d ns had elapsed", k+1, x, callAt[k], k+1, tick)
				break
			}
			if k > 0 && callAt[k]-callAt[k-1] < tick {
				w.bad("pace", "Emit made two calls only %d ns apart (tick %d ns)", callAt[k]-callAt[k-1], tick)
				break
			}
		}
		// index of each delivered value (failing indices are skipped under Try)
		idx := []int{}
		for i := 0; len(idx) < len(got) && i < len(got)+len(c.Fail)+1; i++ {
			if !c.fails(i) {
				idx = append(idx, i)
			}
		}
		for j := range got {
			if j >= len(idx) {
				break
			}
			if o.gotAt[j] < int64(idx[j]+1)*tick {
				w.bad("pace", "value #%d (index %d) was available at %d ns, before %d ticks had elapsed", j+1, idx[j], o.gotAt[j], idx[j]+1)
				break
			}
			if c.Comment == "ready" && (w.cancelAt == 0 || o.gotAt[j] <= w.cancelAt) && o.gotAt[j] != int64(idx[j]+1)*tick {
				w.bad("pace", "consumer always ready: value #%d (index %d) received at %d ns, expected exactly at tick %d (%d ns)", j+1, idx[j], o.gotAt[j], idx[j]+1, int64(idx[j]+1)*tick)
				break
			}
		}
		if c.Comment == "ready" && !w.cancelled {
			// one value per tick: after T elapsed ticks exactly the non-failing indices < T were delivered
			T := int(w.now() / tick)
			want := 0
			for i := 0; i < T; i++ {
				if !c.fails(i) {
					want++
				}
			}
			if c.Mode != "lift" || len(c.Fail) == 0 {
				if len(got) != want {
					w.bad("pace", "consumer always ready: after %d ticks %d values were received, expected %d (one per tick)", T, len(got), want)
				}
			}
		}
	}
}

func c11Hooks() hooks {
	return hooks{online: func(w *world) { w.monitorSource(); c11Check(w) }, final: c11Check, bound: cancelBound,
		preEnd: func(w *world) {
			if w.c.Mode == "lift" && len(w.c.Fail) > 0 && hasMove(w.c.Script, 'F') {
				w.drainAll()
				for i := 0; i < w.c.Cap+len(w.c.Fail)+8 && !w.allClosed(); i++ {
					time.Sleep(w.tick())
					w.quiesce()
				}
				c07Final(w) // the fail-fast verdicts of C07 apply to the successive sequence as well
			}
		}}
}

func genC11(t *testing.T) {
	n := 0
	run := func(c *caseT) {
		n++
		if n%common.NBatch != common.Batch {
			return
		}
		c.Site, c.End = c.Stage+"/"+c.Mode, "cancel"
		if n%2 == 0 {
			c.End = "cancel-drain"
		}
		runCase(t, c, c11Hooks())
	}
	ticks := []int64{1, 1_000_000, 1_000_000_000, 3_600_000_000_000}
	k := 0
	for _, cp := range []int{0, 1, 2, 3, 8} {
		for _, tk := range ticks {
			A := fmt.Sprintf("A%d", tk)
			for T := 1; T <= common.Pick(4, 7); T++ {
				k++
				// Emit, consumer always ready, cancel after T ticks
				for _, mode := range []string{"pure", "try"} {
					var fail []int
					if mode == "try" {
						for i := 0; i < T+2; i++ {
							if mix(i, uint64(k))%3 == 0 {
								fail = append(fail, i)
							}
						}
					}
					sc := append([]string{"D0!", "F0"}, rep(A, T)...)
					run(&caseT{Stage: "Emit", Mode: mode, Cap: cp, Tick: tk, Fail: fail, FSeed: uint64(k), Script: append(sc, "X"), Comment: "ready"})
				}
				// Emit, back-pressure: idle longer than cap ticks, then a burst of receives, cancel at every position
				idle := rep(A, cp+T)
				burst := rep("R0", T+1)
				base := append(append([]string{}, idle...), burst...)
				for pos := 0; pos <= len(base); pos += max(1, len(base)/4) {
					sc := slices.Clone(base[:pos])
					sc = append(sc, "X")
					sc = append(sc, base[pos:]...)
					run(&caseT{Stage: "Emit", Mode: "pure", Cap: cp, Tick: tk, FSeed: uint64(k), Script: sc, Comment: "back-pressure"})
				}
				// the same with the consumer resuming in the middle of a period (off the tick grid), then keeping up
				if tk >= 1000 {
					mid := fmt.Sprintf("A%d", tk/2+tk/5)
					sc := append(append([]string{}, idle...), mid)
					for j := 0; j < T+cp+2; j++ {
						sc = append(sc, "R0")
					}
					sc = append(sc, "D0!")
					sc = append(sc, rep(A, 3)...)
					sc = append(sc, "X")
					run(&caseT{Stage: "Emit", Mode: "pure", Cap: cp, Tick: tk, FSeed: uint64(k), Script: sc, Comment: "back-pressure, resume mid-period"})
				}
				// Unfold: receives one at a time, in bursts, cancel at every position
				if tk == 1 {
					ub := rep("R0", T+cp+1)
					for pos := 0; pos <= len(ub); pos++ {
						sc := slices.Clone(ub[:pos])
						sc = append(sc, "X")
						sc = append(sc, ub[pos:]...)
						run(&caseT{Stage: "Unfold", Mode: "pure", Cap: cp, N: 1 + k%7, Tick: 1000, FSeed: uint64(k), Script: sc})
					}
					run(&caseT{Stage: "Unfold", Mode: "pure", Cap: cp, N: 1 + k%7, Tick: 1000, FSeed: uint64(k), Script: append(rep("R0!", T+cp), "W", "X")})
					// slow step function (virtual delay below one tick), consumer always waiting, cancel in the middle
					for _, sc := range [][]string{{"D0", "A1000000", "A1000000", "X"}, {"R0", "R0", "A1000000", "X", "A1000000"}, append(append([]string{"D0!"}, rep("A1000000", T)...), "X")} {
						run(&caseT{Stage: "Unfold", Mode: "pure", Cap: cp, N: 1 + k%7, Tick: 1000000, Delay: 900, FSeed: uint64(k), Script: sc, Comment: "slow step"})
					}
				}
			}
		}
	}
	// fail-fast sources: exactly the values before the failure, nothing lost however slow the consumer is;
	// with nobody reading the error output the stage must still go away after cancel
	for _, cp := range []int{0, 1, 2, 3} {
		for pos := 0; pos <= 4; pos++ {
			k++
			u := &caseT{Stage: "Unfold", Mode: "lift", Cap: cp, N: 2 + k%5, Tick: 1000000, FSeed: uint64(k)}
			x := u.N
			for i := 0; i < pos; i++ {
				x = u.next(x)
			}
			u.Fail = []int{x}
			for _, sc := range [][]string{
				append(rep("R0", pos+2), "F0"),                                  // one value at a time: the stage is always ahead of the consumer
				append([]string{"A1000000"}, append(rep("R0", pos+2), "F0")...), // the buffer is full before anybody reads
				{"D0!", "F0"},                 // consumers keep up
				append(rep("R0", pos+2), "X"), // nobody ever reads the error output
				{"A1000000", "X"},             // nobody reads anything
			} {
				c2 := *u
				c2.Script = sc
				run(&c2)
			}
			e := &caseT{Stage: "Emit", Mode: "lift", Cap: cp, Tick: 1000000, FSeed: uint64(k), Fail: []int{pos}}
			for _, sc := range [][]string{
				append(append(rep("A1000000", pos+cp+2), rep("R0", pos+1)...), "F0"),
				append([]string{"D0!", "F0"}, rep("A1000000", pos+2)...),
				append(rep("A1000000", pos+2), "X"),
				append(append([]string{"D0!"}, rep("A1000000", pos+2)...), "X"),
			} {
				c2 := *e
				c2.Script = sc
				run(&c2)
			}
		}
	}
	nr := common.Pick(2000, 120000)
	for i := 0; i < nr; i++ {
		r := common.RngN("c11", uint64(i))
		tk := ticks[r.IntN(len(ticks))]
		A := fmt.Sprintf("A%d", tk)
		c := &caseT{Cap: wide(r, 9, 16, 64), Tick: tk, FSeed: r.Uint64() % 100000, Mode: "pure"}
		T := 1 + r.IntN(20)
		if r.IntN(3) == 0 {
			c.Stage, c.N = "Unfold", 1+r.IntN(100)
			cons := rep("R0", r.IntN(T+1))
			if r.IntN(2) == 0 {
				c.Delay, c.Tick = 900, 1000000
				A = "A1000000"
				if r.IntN(2) == 0 {
					cons = []string{"D0"}
				}
			}
			c.Script = randInterleave(r, [][]string{cons, {"X"}, rep(A, r.IntN(4))}, []int{0, 40}[r.IntN(2)])
		} else {
			c.Stage = "Emit"
			seqs := [][]string{rep(A, T), rep("R0", r.IntN(T+2)), {"X"}}
			if tk >= 1000 && r.IntN(2) == 0 {
				seqs = append(seqs, rep(fmt.Sprintf("A%d", tk/3+1), r.IntN(4))) // off-grid clock steps
			}
			if r.IntN(2) == 0 {
				c.Mode = "try"
				for j := 0; j < T+4; j++ {
					if r.IntN(4) == 0 {
						c.Fail = append(c.Fail, j)
					}
				}
				seqs = append(seqs, rep("E0", r.IntN(len(c.Fail)+2)))
			}
			c.Script = randInterleave(r, seqs, []int{0, 0, 30}[r.IntN(3)])
		}
		run(c)
	}
	progsC11(t)
}

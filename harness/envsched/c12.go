package envsched

import (
	"fmt"
	"testing"

	"verif/harness/common"
)

// C12 — Join: the output is an interleaving of the inputs (nothing lost, duplicated or invented,
// per-input order kept) and, without cancel, closes after — and only after — every input has
// closed and been drained; any number of inputs including none.

// c12Online: nothing is lost also means that Join keeps taking from every input: while the consumer
// drains the output (and nothing is cancelled) no send on any input may still be waiting at a
// quiescent point.
func c12Online(w *world) {
	if w.cancelled || len(w.outs) == 0 {
		return
	}
	o := w.outs[0]
	o.mu.Lock()
	draining := o.pending == "drain"
	o.mu.Unlock()
	if !draining || w.c.OneProducer {
		return
	}
	for _, p := range w.ins {
		s := p.snap()
		if len(s.sent)+len(s.panicked) < len(s.issued) && s.pending == "send" {
			w.bad("result", "the consumer is draining the output, yet a send on %s is still waiting at a quiescent point (issued %d, completed %d): Join is not taking from that input", p.name, len(s.issued), len(s.sent))
		}
	}
}

func genC12(t *testing.T) {
	n := 0
	run := func(c *caseT) {
		n++
		if n%common.NBatch != common.Batch {
			return
		}
		c.Site, c.Stage, c.End = "Join", "Join", "complete"
		runCase(t, c, hooks{online: c12Online})
	}
	runNil := func(c *caseT) {
		n++
		if n%common.NBatch != common.Batch {
			return
		}
		// with a nil input the output may only close by cancel. The reader of the nil channel can never be released
		// (ranging over a nil channel blocks for good), so no end game applies and the bubble's deadlock report for
		// that goroutine is expected.
		c.Site, c.Stage, c.End = "Join", "Join", "none"
		runCase(t, c, hooks{online: c12Online})
	}
	// wide joins, live inputs: one producer goroutine serves all inputs in a given order (last input first,
	// first input first, round robin) and closes them only at the end
	for _, ni := range []int{2, 3, 6, 8, 9, 12, 17} {
		for _, cp := range []int{0, 1} {
			for order := 0; order < 3; order++ {
				c := &caseT{Cap: cp, OneProducer: true, Comment: "wide join, single producer"}
				var sends, closes []string
				for i := 0; i < ni; i++ {
					c.Inputs = append(c.Inputs, ids(1000*(i+1), 2))
					closes = append(closes, fmt.Sprintf("C%d", i))
				}
				for k := 0; k < 2; k++ {
					for i := 0; i < ni; i++ {
						j := i
						if order == 0 {
							j = ni - 1 - i
						}
						sends = append(sends, fmt.Sprintf("S%d", j))
					}
				}
				if order == 2 {
					sends = nil
					for i := 0; i < ni; i++ {
						sends = append(sends, fmt.Sprintf("S%d", i), fmt.Sprintf("S%d", i))
					}
				}
				c.Script = append([]string{"D0"}, sends...)
				c.Script = append(c.Script, closes...)
				run(c)
			}
		}
	}
	// tiny: all interleavings of per-input producer programs and the consumer
	for _, cp := range []int{0, 1, 2} {
		for _, shape := range [][]int{{}, {0}, {1}, {2}, {0, 0}, {1, 0}, {1, 1}, {2, 1}, {1, 1, 1}, {2, 0, 1}} {
			if len(shape) == 3 && cp == 2 && common.Tier == "quick" {
				continue
			}
			c := caseT{Cap: cp}
			var seqs [][]string
			total := 0
			for i, l := range shape {
				c.Inputs = append(c.Inputs, ids(100*(i+1), l))
				seqs = append(seqs, append(rep(fmt.Sprintf("S%d", i), l), fmt.Sprintf("C%d", i)))
				total += l
			}
			if len(shape) == 0 {
				c.Inputs = [][]int{}
			}
			seqs = append(seqs, rep("R0", min(total, 2)+1))
			interleavings(seqs, func(script []string) {
				c2 := c
				c2.Script = script
				run(&c2)
			})
		}
	}
	// the same channel passed twice (every element still once, closes with it); a nil channel among the inputs
	// (it never closes, so without cancel the output must stay open)
	for _, cp := range []int{0, 1, 3} {
		for _, ni := range []int{1, 2} {
			c := caseT{Cap: cp}
			var seqs [][]string
			for i := 0; i < ni; i++ {
				c.Inputs = append(c.Inputs, ids(100*(i+1), 2))
				seqs = append(seqs, []string{fmt.Sprintf("S%d", i), fmt.Sprintf("S%d", i), fmt.Sprintf("C%d", i)})
			}
			seqs = append(seqs, []string{"R0", "R0"})
			interleavings(seqs, func(script []string) {
				d := c
				d.DupInput, d.Script, d.Comment = true, script, "first input passed twice"
				run(&d)
			})
			for _, tail := range [][]string{{"D0", "A1000000"}, {"R0", "R0", "R0", "R0", "R0"}} {
				nl := c
				nl.NilInput, nl.Tick, nl.Comment = true, 1000000, "a nil channel among the inputs"
				nl.Script = nil
				for _, s := range seqs[:len(seqs)-1] {
					nl.Script = append(nl.Script, s...)
				}
				nl.Script = append(nl.Script, tail...)
				runNil(&nl)
			}
		}
	}
	nr := common.Pick(2500, 150000)
	for i := 0; i < nr; i++ {
		r := common.RngN("c12", uint64(i))
		ni := r.IntN(6)
		if r.IntN(4) == 0 {
			ni = 6 + r.IntN(12) // wide joins
		}
		c := &caseT{Cap: wide(r, 5, 16, 64), Inputs: [][]int{}, OneProducer: r.IntN(4) == 0}
		var seqs [][]string
		total := 0
		for k := 0; k < ni; k++ {
			l := r.IntN(21)
			if r.IntN(4) == 0 {
				l = 0
			}
			total += l
			c.Inputs = append(c.Inputs, ids(1000*(k+1), l))
			p := rep(fmt.Sprintf("S%d", k), l)
			if r.IntN(4) > 0 { // otherwise the end game closes it
				p = append(p, fmt.Sprintf("C%d", k))
			}
			seqs = append(seqs, p)
		}
		if r.IntN(3) == 0 {
			seqs = append(seqs, []string{"D0"})
		} else {
			seqs = append(seqs, rep("R0", r.IntN(total+2)))
		}
		c.Script = randInterleave(r, seqs, []int{0, 0, 30, 80}[r.IntN(4)])
		run(c)
	}
	if common.Batch == 0 {
		nilElemsJoin("C12")
		soakJoin(common.Pick(20000, 200000))
	}
	progsC12(t)
}

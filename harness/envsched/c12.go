package envsched

import (
	"fmt"
	"testing"

	"verif/harness/common"
)

// C12 — Join: the output is an interleaving of the inputs (nothing lost, duplicated or invented,
// per-input order kept) and, without cancel, closes after — and only after — every input has
// closed and been drained; any number of inputs including none.

func genC12(t *testing.T) {
	n := 0
	run := func(c *caseT) {
		n++
		if n%common.NBatch != common.Batch {
			return
		}
		c.Site, c.Stage, c.End = "Join", "Join", "complete"
		runCase(t, c, hooks{})
	}
	// tiny: all interleavings of per-input producer programs and the consumer
	for _, cp := range []int{0, 1, 2} {
		for _, shape := range [][]int{{}, {0}, {1}, {2}, {0, 0}, {1, 0}, {1, 1}, {2, 1}, {1, 1, 1}, {2, 0, 1}} {
			if len(shape) == 3 && cp == 2 && common.Tier == "quick" {
				continue
			}
			c := caseT{Cap: cp}
			var seqs [][]string
			total := 0
			for i, l := range shape {
				c.Inputs = append(c.Inputs, ids(100*(i+1), l))
				seqs = append(seqs, append(rep(fmt.Sprintf("S%d", i), l), fmt.Sprintf("C%d", i)))
				total += l
			}
			if len(shape) == 0 {
				c.Inputs = [][]int{}
			}
			seqs = append(seqs, rep("R0", min(total, 2)+1))
			interleavings(seqs, func(script []string) {
				c2 := c
				c2.Script = script
				run(&c2)
			})
		}
	}
	nr := common.Pick(2500, 150000)
	for i := 0; i < nr; i++ {
		r := common.RngN("c12", uint64(i))
		ni := r.IntN(6)
		c := &caseT{Cap: r.IntN(5), Inputs: [][]int{}}
		var seqs [][]string
		total := 0
		for k := 0; k < ni; k++ {
			l := r.IntN(21)
			if r.IntN(4) == 0 {
				l = 0
			}
			total += l
			c.Inputs = append(c.Inputs, ids(1000*(k+1), l))
			p := rep(fmt.Sprintf("S%d", k), l)
			if r.IntN(4) > 0 { // otherwise the end game closes it
				p = append(p, fmt.Sprintf("C%d", k))
			}
			seqs = append(seqs, p)
		}
		seqs = append(seqs, rep("R0", r.IntN(total+2)))
		c.Script = randInterleave(r, seqs, []int{0, 0, 30, 80}[r.IntN(4)])
		run(c)
	}
	if common.Batch == 0 {
		soakJoin(common.Pick(20000, 200000))
	}
}

package envsched

import (
	"fmt"
	"testing"

	"verif/harness/common"
)

// C13 — Throttling delivers exactly the input, in order, closes with it; before cancel no window of
// length interval sees more than 2*ops+1+c deliveries; with input always available and the consumer
// always ready element i is delivered in [floor(i/ops)*interval, floor(i/ops)*interval + interval].

func c13Check(w *world) {
	c := w.c
	o := w.outs[0].snap()
	iv := c.Tick
	limit := 2*c.N + 1 + c.Cap
	// two-pointer sweep over half-open windows [t, t+interval) starting at each delivery
	at := o.gotAt
	if w.cancelled {
		k := 0
		for k < len(at) && at[k] < w.cancelAt {
			k++
		}
		at = at[:k]
	}
	j := 0
	for i := range at {
		for at[i]-at[j] >= iv {
			j++
		}
		if i-j+1 > limit {
			w.bad("rate", "%d deliveries within one interval of %d ns (between %d and %d ns), the bound is 2*ops+1+c = %d (ops %d, capacity %d); stamps %v", i-j+1, iv, at[j], at[i], limit, c.N, c.Cap, at[j:i+1])
			break
		}
	}
	rec.Max("max_deliveries_in_one_interval", int64(maxWindow(at, iv)))
	if c.Comment == "ready" {
		for i, ts := range o.gotAt {
			if w.cancelled && ts >= w.cancelAt {
				break
			}
			lo := int64(i/c.N) * iv
			if ts < lo || ts > lo+iv {
				w.bad("schedule", "input always available, consumer always ready: element %d delivered at %d ns, allowed [%d, %d] (ops %d, interval %d)", i, ts, lo, lo+iv, c.N, iv)
				break
			}
		}
	}
}

func maxWindow(at []int64, iv int64) int {
	best, j := 0, 0
	for i := range at {
		for at[i]-at[j] >= iv {
			j++
		}
		best = max(best, i-j+1)
	}
	return best
}

func c13Hooks() hooks { return hooks{online: c13Check, final: c13Check} }

func genC13(t *testing.T) {
	n := 0
	run := func(c *caseT) {
		n++
		if n%common.NBatch != common.Batch {
			return
		}
		c.Site, c.Stage = "Throttling", "Throttling"
		if hasMove(c.Script, 'X') {
			c.End = "cancel"
		} else {
			c.End = "complete"
		}
		runCase(t, c, c13Hooks())
	}
	ivs := []int64{1_000_000, 1_000_000_000, 200_000, 1_000}
	for _, ops := range []int{1, 2, 3, 4, 6} {
		for _, iv := range ivs {
			A := fmt.Sprintf("A%d", iv)
			half := fmt.Sprintf("A%d", iv/2)
			for _, cp := range []int{0, 1, 2, 4} {
				for _, ln := range []int{0, 1, ops, ops + 1, 3 * ops, 5*ops + 2} {
					in := [][]int{ids(100, ln)}
					T := ln/ops + 2
					// input always available, consumer always ready
					sc := append(rep("S0!", ln), "C0!", "D0")
					sc = append(sc, rep(A, T)...)
					run(&caseT{N: ops, Tick: iv, Cap: cp, Inputs: in, Script: sc, Comment: "ready"})
					// the same observed at half-interval steps
					sc2 := append(rep("S0!", ln), "C0!", "D0")
					sc2 = append(sc2, rep(half, 2*T)...)
					run(&caseT{N: ops, Tick: iv, Cap: cp, Inputs: in, Script: sc2, Comment: "ready"})
					// consumer stalls for several intervals, then drains: the worst-case burst
					st := append(rep("S0!", ln), "C0!")
					st = append(st, rep(A, 3)...)
					st = append(st, half, "D0")
					st = append(st, rep(A, T)...)
					run(&caseT{N: ops, Tick: iv, Cap: cp, Inputs: in, Script: st, Comment: "stall then drain"})
					// idle input for several intervals, then a burst of arrivals
					id := append([]string{"D0!"}, rep(A, 3)...)
					id = append(id, rep("S0!", ln)...)
					id = append(id, "C0")
					id = append(id, rep(A, T)...)
					run(&caseT{N: ops, Tick: iv, Cap: cp, Inputs: in, Script: id, Comment: "idle then burst"})
					// cancel in the middle
					cx := append(rep("S0!", ln), "D0", A, "X", A)
					run(&caseT{N: ops, Tick: iv, Cap: cp, Inputs: in, Script: cx, Comment: "cancel mid-stream"})
				}
			}
		}
	}
	nr := common.Pick(1500, 100000)
	for i := 0; i < nr; i++ {
		r := common.RngN("c13", uint64(i))
		ops := 1 + wide(r, 6, 15, 40)
		iv := ivs[r.IntN(len(ivs))]
		ln := r.IntN(61)
		c := &caseT{N: ops, Tick: iv, Cap: wide(r, 5, 8, 16, 64), Inputs: [][]int{ids(1000, ln)}, Comment: "random"}
		steps := []string{fmt.Sprintf("A%d", iv), fmt.Sprintf("A%d", iv/2), fmt.Sprintf("A%d", iv/3+1), fmt.Sprintf("A%d", 2*iv+7)}
		var clock []string
		for k := r.IntN(ln/ops + 6); k > 0; k-- {
			clock = append(clock, steps[r.IntN(len(steps))])
		}
		prod := rep("S0", ln)
		if r.IntN(2) == 0 {
			prod = rep("S0!", ln) // everything queued at once: input always available
		}
		if r.IntN(4) > 0 {
			prod = append(prod, "C0")
		}
		cons := rep("R0", r.IntN(ln+2))
		if r.IntN(3) == 0 {
			cons = []string{"D0"}
		}
		seqs := [][]string{prod, cons, clock}
		if r.IntN(5) == 0 {
			seqs = append(seqs, []string{"X"})
		}
		c.Script = randInterleave(r, seqs, []int{0, 0, 40}[r.IntN(3)])
		run(c)
	}
	progsC13(t)
}

// Package envsched is engine A: the environment-move scheduler. A case is a
// stage configuration plus a script of environment moves (send, close, receive,
// drain, cancel, advance the virtual clock, bursts). The stage under test is the
// real golem code running inside a testing/synctest bubble; actors perform the
// environment's blocking channel operations; after a move the driver waits for
// quiescence (synctest.Wait: every goroutine of the bubble durably blocked) and
// the monitors read what happened.
package envsched

import (
	"context"
	"fmt"
	"runtime"
	"strconv"
	"strings"
	"sync"
	"sync/atomic"
	"testing/synctest"
	"time"
)

// ---------------------------------------------------------------- case description (data, replayable)

type caseT struct {
	Site        string   `json:"site"`            // stage name, used in violation signatures
	Stage       string   `json:"stage"`           // key into the stage table
	Cap         int      `json:"cap"`             // capacity of the input channels (fixes output capacities)
	Par         int      `json:"par,omitempty"`   // fork worker count
	Mode        string   `json:"mode,omitempty"`  // pure | lift | try
	N           int      `json:"n,omitempty"`     // Take n / Throttling ops / Join inputs ...
	Inputs      [][]int  `json:"inputs"`          // planned elements per input, unique non-zero ids
	FSeed       uint64   `json:"fseed"`           // selects the user functions (images, fan-out, predicate bits, delays)
	Fail        []int    `json:"fail,omitempty"`  // ids (or indices for sources) on which the user function fails
	Tick        int64    `json:"tick,omitempty"`  // Emit frequency / Throttling interval, ns
	Delay       int      `json:"delay,omitempty"` // user-function virtual processing delay family (0 = none)
	Script      []string `json:"script"`          // environment moves
	End         string   `json:"end"`             // complete | cancel | none
	Monoid      string   `json:"monoid,omitempty"`
	Procs       int      `json:"procs,omitempty"` // GOMAXPROCS for this case (0 = leave)
	Senders     int      `json:"senders,omitempty"`
	Comment     string   `json:"comment,omitempty"`
	Arg         string   `json:"arg,omitempty"`          // programs: a further parameter (e.g. the stage a program is about)
	Partial     bool     `json:"partial,omitempty"`      // failing FMap arrows emit part of their output first
	DupInput    bool     `json:"dup_input,omitempty"`    // Join: the first input channel is passed twice
	NilInput    bool     `json:"nil_input,omitempty"`    // Join: a nil channel is among the inputs (never closes)
	OneProducer bool     `json:"one_producer,omitempty"` // one goroutine serves all inputs in script order (a blocked send delays everything behind it)
}

// ---------------------------------------------------------------- events

type event struct {
	Seq  int64  `json:"seq"`
	T    int64  `json:"t"` // virtual ns since bubble start
	Port string `json:"port"`
	What string `json:"what"` // send-call send-ret recv-call recv-val recv-closed close cancel call ...
	V    int    `json:"v,omitempty"`
}

// ---------------------------------------------------------------- ports and actors

type cmd struct {
	op     string // send | close | recv | drain
	v      int
	target *port // send/close: the input whose channel is operated on (nil = the actor's own); lets one
	// producer goroutine serve several inputs in program order
}

type recvFn func(stop <-chan struct{}) (v any, ok bool, aborted bool)

type port struct {
	w       *world
	name    string
	isIn    bool
	sendVia func(actor *port, v int, stop <-chan struct{}) (aborted bool) // input ports: send on this channel, performed by the actor goroutine
	closeF  func()
	sendNow func(v int) bool // non-blocking send performed by the driver itself (move B)
	recv    recvFn           // output ports
	lenF    func() int
	capF    func() int

	mu      sync.Mutex
	queue   []cmd
	wake    chan struct{}
	abort   chan struct{} // closing it aborts the blocking operation in progress (the actor then goes on with its queue)
	pending string        // op currently blocking ("" = idle)

	// observations (guarded by mu; read by the driver at quiescent points)
	issued      []int   // values whose send was commanded
	sent        []int   // completed sends in completion order
	sentSeq     []int64 // global sequence number of each completion
	panicked    []int   // sends that hit a closed channel
	got         []any
	gotAt       []int64
	gotSeq      []int64
	closed      bool // close observed by the consumer
	closedAt    int64
	closedByU   bool // we closed this input
	closeQueued bool
	draining    bool
	afterCancel int // values taken by a drain after the context was cancelled
}

func (p *port) push(c cmd) {
	tp := p
	if c.target != nil {
		tp = c.target
	}
	tp.mu.Lock()
	if tp.closeQueued && (c.op == "send" || c.op == "close") {
		tp.mu.Unlock()
		return // nothing is sent on, or closes, an input the environment already closed
	}
	if c.op == "send" {
		tp.issued = append(tp.issued, c.v)
	}
	if c.op == "close" {
		tp.closeQueued = true
	}
	tp.mu.Unlock()
	p.mu.Lock()
	p.queue = append(p.queue, c)
	p.mu.Unlock()
	select {
	case p.wake <- struct{}{}:
	default:
	}
}

func (p *port) next() (cmd, bool) {
	for {
		p.mu.Lock()
		if len(p.queue) > 0 {
			c := p.queue[0]
			p.queue = p.queue[1:]
			p.pending = c.op
			p.mu.Unlock()
			return c, true
		}
		p.pending = ""
		p.mu.Unlock()
		select {
		case <-p.wake:
		case <-p.w.stop:
			return cmd{}, false
		}
	}
}

func (p *port) run() {
	defer p.w.liveActors.Add(-1)
	for {
		c, ok := p.next()
		if !ok {
			return
		}
		tp := p
		if c.target != nil {
			tp = c.target
		}
		switch c.op {
		case "send":
			p.w.log(tp.name, "send-call", c.v)
			ab, pan := p.trySendOn(tp, c.v)
			if ab {
				if p.w.isStopped() {
					return
				}
				p.w.log(tp.name, "send-aborted", c.v)
				continue
			}
			tp.mu.Lock()
			if pan {
				tp.panicked = append(tp.panicked, c.v)
			} else {
				tp.sent = append(tp.sent, c.v)
				tp.sentSeq = append(tp.sentSeq, p.w.seq.Add(1))
			}
			tp.mu.Unlock()
			if pan {
				p.w.log(tp.name, "send-on-closed", c.v)
			} else {
				p.w.log(tp.name, "send-ret", c.v)
			}
		case "close":
			func() {
				defer func() { recover() }() // closing a channel golem already closed is not judged here
				tp.closeF()
			}()
			tp.mu.Lock()
			tp.closedByU = true
			tp.mu.Unlock()
			p.w.log(tp.name, "close", 0)
		case "recv", "drain":
			for {
				v, ok, ab := p.recv(p.w.stop)
				if ab {
					if p.w.isStopped() {
						return
					}
					p.w.log(p.name, "recv-aborted", 0)
					break
				}
				now := p.w.now()
				s := p.w.seq.Add(1)
				p.mu.Lock()
				if ok {
					p.got = append(p.got, v)
					p.gotAt = append(p.gotAt, now)
					p.gotSeq = append(p.gotSeq, s)
				} else {
					p.closed = true
					p.closedAt = now
				}
				p.mu.Unlock()
				if !ok {
					p.w.log(p.name, "recv-closed", 0)
					// a closed channel stays closed: ignore further receive commands
					p.mu.Lock()
					p.queue = nil
					p.mu.Unlock()
					break
				}
				p.w.log(p.name, "recv-val", toInt(v))
				if c.op == "recv" {
					break
				}
				if len(p.got) > drainBudget {
					// a stream that does not end (a source that should have stopped): stop receiving so that the stage blocks,
					// the bubble becomes quiescent and the monitors can speak
					p.w.log(p.name, "drain-budget", 0)
					break
				}
				if p.w.cancelFlag.Load() && p.w.limitDrain.Load() {
					// a consumer that keeps draining after cancel takes at most postCancelBudget more values:
					// a stage that never stops would otherwise keep the bubble busy forever (no quiescence)
					p.mu.Lock()
					p.afterCancel++
					over := p.afterCancel > postCancelBudget
					p.mu.Unlock()
					if over {
						break
					}
				}
			}
		}
	}
}

func (p *port) trySendOn(tp *port, v int) (aborted, panicked bool) {
	defer func() {
		if r := recover(); r != nil {
			panicked = true
		}
	}()
	return tp.sendVia(p, v, p.w.stop), false
}

func toInt(v any) int {
	switch x := v.(type) {
	case int:
		return x
	case idErr:
		return int(x)
	case ctxErr:
		return x.id
	case panicErr:
		return int(x)
	case sliceErr:
		return x[0]
	case error:
		return -1
	}
	return 0
}

// callBudget: no case of the engine needs this many calls of its user function
const callBudget = 300000

const postCancelBudget = 200

// drainBudget: no case of the engine delivers this many values on one port
const drainBudget = 400000

// snapshot of a port at a quiescent point
type snap struct {
	sent, issued, panicked []int
	sentSeq                []int64
	got                    []any
	gotAt                  []int64
	closed                 bool
	pending                string
	buffered               int
	queued                 int
}

func (p *port) snap() snap {
	p.mu.Lock()
	defer p.mu.Unlock()
	s := snap{sent: append([]int(nil), p.sent...), issued: append([]int(nil), p.issued...), panicked: append([]int(nil), p.panicked...),
		sentSeq: append([]int64(nil), p.sentSeq...),
		got:     append([]any(nil), p.got...), gotAt: append([]int64(nil), p.gotAt...), closed: p.closed, pending: p.pending, queued: len(p.queue)}
	if p.lenF != nil {
		s.buffered = p.lenF()
	}
	return s
}

func (s snap) ints() []int {
	out := make([]int, len(s.got))
	for i, v := range s.got {
		out[i] = toInt(v)
	}
	return out
}

// ---------------------------------------------------------------- world

type idErr int

func (e idErr) Error() string { return "fail#" + strconv.Itoa(int(e)) }

// panicErr is a failure whose text cannot be asked for
type panicErr int

func (e panicErr) Error() string { panic("Error() of a failure value called by the pipeline") }

// sliceErr is a failure whose dynamic type is not comparable
type sliceErr []int

func (e sliceErr) Error() string { return "fail#" + strconv.Itoa(e[0]) }

// ctxErr is a step failure that wraps a context error (its own deadline, not the pipeline's)
type ctxErr struct {
	id   int
	base error
}

func (e ctxErr) Error() string { return "fail#" + strconv.Itoa(e.id) + ": " + e.base.Error() }
func (e ctxErr) Unwrap() error { return e.base }

type world struct {
	c          *caseT
	ctx        context.Context
	cancelF    context.CancelFunc
	cancelled  bool
	cancelFlag atomic.Bool  // same as cancelled, readable by actors
	decoUsed   atomic.Bool  // the case's morphism is wrapped in a counting decorator
	decoCalls  atomic.Int64 // calls of the decorator's Apply
	runaway    atomic.Bool  // the user function was called more than callBudget times (the caller is parked)
	limitDrain atomic.Bool  // cancel-drain end game: drains take at most postCancelBudget values after cancel
	cancelSeq  int64        // sequence number taken just before cancel() was called
	cancelAt   int64
	start      time.Time
	stop       chan struct{}
	stopped    bool
	seq        atomic.Int64
	liveActors atomic.Int64
	baseG      int // goroutines of the process when the case started (driver included)
	ins        []*port
	outs       []*port // value outputs
	errs       []*port
	dones      []*port
	persist    int // library goroutines allowed to persist until cancel (Throttling pacer)
	sentPlan   []int

	emu    sync.Mutex
	events []event
	calls  []int   // user-function call log: argument ids in call order
	callAt []int64 // virtual time of each call
	callN  map[int]int

	onQuiescent func(w *world) // online monitor of the property at hand
	quiescents  int
	viol        []violation
}

type violation struct{ sig, desc string }

func (w *world) violate(sig, format string, a ...any) {
	for _, v := range w.viol {
		if v.sig == sig {
			return
		}
	}
	w.viol = append(w.viol, violation{sig, fmt.Sprintf(format, a...)})
}

func (w *world) isStopped() bool {
	select {
	case <-w.stop:
		return true
	default:
		return false
	}
}

// abortOps aborts the blocking operation of the port, drops what is queued and
// leaves the actor idle; keep lists operations to keep in the queue (e.g. "close").
func (p *port) abortOps(keep string) {
	p.mu.Lock()
	var q []cmd
	for _, c := range p.queue {
		if c.op == keep {
			q = append(q, c)
		}
	}
	p.queue = q
	old := p.abort
	p.mu.Unlock()
	close(old)
	synctest.Wait()
	p.mu.Lock()
	p.abort = make(chan struct{})
	p.mu.Unlock()
}

func (w *world) now() int64 { return int64(time.Since(w.start)) }

func (w *world) log(port, what string, v int) {
	e := event{Seq: w.seq.Add(1), T: w.now(), Port: port, What: what, V: v}
	w.emu.Lock()
	if len(w.events) < 4000 {
		w.events = append(w.events, e)
	}
	w.emu.Unlock()
}

// called records a user-function call (argument id) — called from library goroutines.
func (w *world) called(arg int) {
	if w.isStopped() {
		// the case is over (torn down) and a library goroutine still calls the user function: it can only be one that
		// never stops. Park it, so that the bubble ends (as a deadlock report) instead of spinning on the virtual clock.
		select {}
	}
	t := w.now()
	w.emu.Lock()
	if len(w.calls) > callBudget {
		// a stage that calls its function without end and without ever blocking (no tick consumed between two calls)
		// would keep the bubble busy for good: park it and say so
		w.emu.Unlock()
		w.runaway.Store(true)
		select {}
	}
	w.calls = append(w.calls, arg)
	w.callAt = append(w.callAt, t)
	if w.callN == nil {
		w.callN = map[int]int{}
	}
	w.callN[arg]++
	w.emu.Unlock()
}

func (w *world) callLog() ([]int, []int64, map[int]int) {
	w.emu.Lock()
	defer w.emu.Unlock()
	m := make(map[int]int, len(w.callN))
	for k, v := range w.callN {
		m[k] = v
	}
	return append([]int(nil), w.calls...), append([]int64(nil), w.callAt...), m
}

func newWorld(c *caseT) *world {
	w := &world{c: c, start: time.Now(), stop: make(chan struct{})}
	w.ctx, w.cancelF = context.WithCancel(context.Background())
	return w
}

func (w *world) startPort(p *port) *port {
	p.w = w
	p.wake = make(chan struct{}, 1)
	p.abort = make(chan struct{})
	w.liveActors.Add(1)
	go p.run()
	return p
}

// addIn creates an input channel of the case's capacity and its producer actor.
func (w *world) addIn(capacity int) chan int {
	ch := make(chan int, capacity)
	w.addInChan(ch)
	return ch
}

// addInChan registers a producer for an existing send-side channel.
func (w *world) addInChan(ch chan<- int) {
	p := &port{name: "in" + strconv.Itoa(len(w.ins)), isIn: true}
	p.sendVia = func(actor *port, v int, stop <-chan struct{}) bool {
		actor.mu.Lock()
		abort := actor.abort
		actor.mu.Unlock()
		select {
		case ch <- v:
			return false
		case <-stop:
			return true
		case <-abort:
			return true
		}
	}
	p.sendNow = func(v int) (ok bool) {
		defer func() {
			if recover() != nil { // golem closed the send side (cancel): not judged
				ok = false
			}
		}()
		select {
		case ch <- v:
			return true
		default:
			return false
		}
	}
	p.closeF = func() { close(ch) }
	p.lenF = func() int { return len(ch) }
	p.capF = func() int { return cap(ch) }
	w.ins = append(w.ins, w.startPort(p))
}

func mkRecv[T any](p *port, ch <-chan T) recvFn {
	return func(stop <-chan struct{}) (any, bool, bool) {
		p.mu.Lock()
		abort := p.abort
		p.mu.Unlock()
		select {
		case v, ok := <-ch:
			return v, ok, false
		case <-stop:
			return nil, false, true
		case <-abort:
			return nil, false, true
		}
	}
}

func addOut[T any](w *world, list *[]*port, prefix string, ch <-chan T) *port {
	p := &port{name: prefix + strconv.Itoa(len(*list)), lenF: func() int { return len(ch) }, capF: func() int { return cap(ch) }}
	p.recv = mkRecv(p, ch)
	*list = append(*list, w.startPort(p))
	return p
}

func (w *world) cancel() {
	if w.cancelled {
		return
	}
	w.cancelSeq = w.seq.Add(1)
	w.cancelAt = w.now()
	w.cancelled = true
	w.cancelFlag.Store(true)
	w.cancelF()
	w.log("ctx", "cancel", 0)
}

// libGoroutines = library goroutines of this bubble, by a census of goroutine stacks (about
// 40 us). runtime.NumGoroutine was tried as a cheaper estimate and dropped: it is racy by a few
// goroutines while free lists are being rebalanced, which produced both missed and spurious counts.
func (w *world) libGoroutinesAllow(allowed int) int { return len(w.census()) }

func (w *world) libGoroutines() int { return w.libGoroutinesAllow(0) }

var censusBuf = make([]byte, 256<<10) // cases run one at a time per process

// census returns the stacks of goroutines of this bubble that have golem pipe frames.
func (w *world) census() []string {
	var buf []byte
	for {
		n := runtime.Stack(censusBuf, true)
		if n < len(censusBuf) {
			buf = censusBuf[:n]
			break
		}
		censusBuf = make([]byte, 2*len(censusBuf))
	}
	me := make([]byte, 4096)
	me = me[:runtime.Stack(me, false)]
	bubble := ""
	if i := strings.Index(string(me), "synctest bubble "); i >= 0 {
		j := i + len("synctest bubble ")
		k := j
		for k < len(me) && me[k] >= '0' && me[k] <= '9' {
			k++
		}
		bubble = string(me[i:k])
	}
	var out []string
	for _, g := range strings.Split(string(buf), "\n\n") {
		hdr, _, _ := strings.Cut(g, "\n")
		if bubble != "" && !strings.Contains(hdr, bubble+"]") && !strings.Contains(hdr, bubble+",") {
			continue
		}
		if !strings.Contains(g, "github.com/fogfish/golem/pipe/v2") {
			continue
		}
		if strings.Contains(g, "envsched.(*world).census") {
			continue
		}
		// keep header + first frames
		lines := strings.Split(g, "\n")
		if len(lines) > 9 {
			lines = lines[:9]
		}
		out = append(out, strings.Join(lines, "\n"))
	}
	return out
}

// ---------------------------------------------------------------- driver

func (w *world) quiesce() {
	synctest.Wait()
	w.quiescents++
	if w.onQuiescent != nil {
		w.onQuiescent(w)
	}
}

// exec runs the script. Move syntax: S<i> send next planned element on input i; C<i> close input i;
// R<j> one receive on value output j; E<j> one receive on error output j; N<j> one receive on done channel j;
// D<j>/F<j>/G<j> drain value / error / done output j until closed; X cancel; A<ns> advance the virtual clock;
// a trailing '!' = do not wait for quiescence after the move (burst).
func (w *world) exec(script []string) {
	nextIdx := make([]int, len(w.ins))
	for _, m := range script {
		nowait := strings.HasSuffix(m, "!")
		m = strings.TrimSuffix(m, "!")
		arg := 0
		if len(m) > 1 {
			arg, _ = strconv.Atoi(m[1:])
		}
		switch m[0] {
		case 'S':
			if arg < len(w.ins) && nextIdx[arg] < len(w.c.Inputs[arg]) {
				if w.c.OneProducer {
					w.ins[0].push(cmd{op: "send", v: w.c.Inputs[arg][nextIdx[arg]], target: w.ins[arg]})
				} else {
					w.ins[arg].push(cmd{op: "send", v: w.c.Inputs[arg][nextIdx[arg]]})
				}
				nextIdx[arg]++
			}
		case 'B':
			// the driver itself sends up to <arg> planned elements on input 0 without blocking: these sends
			// have completed, in program order, before whatever the driver does next (e.g. cancel)
			p := w.ins[0]
			for k := 0; k < arg && nextIdx[0] < len(w.c.Inputs[0]); k++ {
				v := w.c.Inputs[0][nextIdx[0]]
				p.mu.Lock()
				busy := p.pending != "" || len(p.queue) > 0 || p.closeQueued
				p.mu.Unlock()
				if busy || !p.sendNow(v) {
					break
				}
				nextIdx[0]++
				p.mu.Lock()
				p.issued = append(p.issued, v)
				p.sent = append(p.sent, v)
				p.sentSeq = append(p.sentSeq, w.seq.Add(1))
				p.mu.Unlock()
				w.log(p.name, "send-now", v)
			}
		case 'C':
			if arg < len(w.ins) {
				if w.c.OneProducer {
					w.ins[0].push(cmd{op: "close", target: w.ins[arg]})
				} else {
					w.ins[arg].push(cmd{op: "close"})
				}
			}
		case 'R':
			if arg < len(w.outs) {
				w.outs[arg].push(cmd{op: "recv"})
			}
		case 'E':
			if arg < len(w.errs) {
				w.errs[arg].push(cmd{op: "recv"})
			}
		case 'N':
			if arg < len(w.dones) {
				w.dones[arg].push(cmd{op: "recv"})
			}
		case 'D':
			if arg < len(w.outs) {
				w.outs[arg].push(cmd{op: "drain"})
			}
		case 'F':
			if arg < len(w.errs) {
				w.errs[arg].push(cmd{op: "drain"})
			}
		case 'G':
			if arg < len(w.dones) {
				w.dones[arg].push(cmd{op: "drain"})
			}
		case 'X':
			w.cancel()
		case 'A':
			time.Sleep(time.Duration(arg))
		case 'W':
		}
		if !nowait {
			w.quiesce()
		}
	}
	// any planned element the script did not send is never sent; remember how far we got
	w.sentPlan = nextIdx
}

// sendRest queues all planned elements not yet commanded, then a close, on every input.
func (w *world) actorFor(p *port) (*port, *port) {
	if w.c.OneProducer && len(w.ins) > 0 {
		return w.ins[0], p
	}
	return p, nil
}

func (w *world) sendRestAndClose() {
	for i, p := range w.ins {
		a, t := w.actorFor(p)
		for k := w.sentPlan[i]; k < len(w.c.Inputs[i]); k++ {
			a.push(cmd{op: "send", v: w.c.Inputs[i][k], target: t})
		}
		w.sentPlan[i] = len(w.c.Inputs[i])
	}
	for _, p := range w.ins {
		a, t := w.actorFor(p)
		a.push(cmd{op: "close", target: t})
	}
}

func (w *world) closeInputs() {
	for _, p := range w.ins {
		a, t := w.actorFor(p)
		a.push(cmd{op: "close", target: t})
	}
}

func (w *world) drainAll() {
	for _, p := range w.outs {
		p.push(cmd{op: "drain"})
	}
	for _, p := range w.errs {
		p.push(cmd{op: "drain"})
	}
	for _, p := range w.dones {
		p.push(cmd{op: "drain"})
	}
}

func (w *world) allPorts() []*port {
	var ps []*port
	ps = append(ps, w.outs...)
	ps = append(ps, w.errs...)
	ps = append(ps, w.dones...)
	return ps
}

// teardown makes every goroutine of the bubble able to exit: cancel, close inputs, keep
// draining outputs for a while on the virtual clock, then stop the actors.
func (w *world) teardown() {
	w.onQuiescent = nil
	if !w.cancelled {
		w.cancelF()
	}
	w.closeInputs()
	w.drainAll()
	synctest.Wait()
	for i := 0; i < 4 && w.libGoroutines() > 0; i++ {
		time.Sleep(time.Duration(max(w.c.Tick, 1)) * 4)
		synctest.Wait()
	}
	close(w.stop)
	w.stopped = true
	synctest.Wait()
}

package envsched

import (
	"io"
	"log/slog"
	"os"
	"runtime"
	"strings"
	"testing"

	"verif/harness/common"
)

var rules = map[string]string{
	"C11": "plus programs at scale in bubbles (whole Seq/stage/ToSeq programs with lengths, capacities, worker counts, numbers of inputs, rates and tick counts swept over 2^k-1, 2^k, 2^k+1 and round numbers; deadlock of the bubble = the program cannot finish); Emit and Unfold x capacities 0-8 x frequencies {1 ns, 1 ms, 1 s, 1 h} on the virtual clock x affine step functions with seed-chosen coefficients x Try failure bitmaps (Emit) x consumer schedules (always ready; idle longer than the capacity then a burst; random) x cancel at every script position; " +
		"monitors: delivered is a prefix of the successive sequence, f is called on consecutive arguments once each, the k-th Emit call is not before k ticks and calls are >= one tick apart, a value is never available before its tick, an always-ready consumer receives exactly one value per tick at the tick, stop and close after cancel within the bound; " +
		"distinct by (case, outcome); non-trivial = at least one value delivered and >= 2 moves",
	"C12": "plus programs at scale in bubbles (whole Seq/stage/ToSeq programs with lengths, capacities, worker counts, numbers of inputs, rates and tick counts swept over 2^k-1, 2^k, 2^k+1 and round numbers; deadlock of the bubble = the program cannot finish); Join with 0..5 inputs x sequences 0..20 x capacities 0..4 x scripts interleaving sends on the different inputs, closes at every position and receives (all interleavings for tiny shapes incl. no inputs / all empty, then seed-random with bursts and unclosed inputs); " +
		"online: output is an order-respecting sub-multiset of the inputs and is not closed while an input is open or undelivered; completion: multiset equality + per-input order, closed, no goroutine left; real-time soak with 5 producers; " +
		"distinct by (case, outcome); non-trivial = at least one element delivered and >= 2 moves",
	"C13": "plus programs at scale in bubbles (whole Seq/stage/ToSeq programs with lengths, capacities, worker counts, numbers of inputs, rates and tick counts swept over 2^k-1, 2^k, 2^k+1 and round numbers; deadlock of the bubble = the program cannot finish); Throttling x ops 1..6 x intervals {1 ms, 1 s} on the virtual clock x capacity 0..4 x arrival patterns (always available; idle for several intervals then a burst; trickle) x consumer paces (always ready; stalled for several intervals then draining; random) x inputs <= 60, clock observed at whole, half and third intervals; " +
		"monitors: delivered == input in order and closes with it, two-pointer sweep over delivery stamps: no half-open window of one interval holds more than 2*ops+1+c deliveries before cancel, and with input always available and consumer always ready element i lies in [floor(i/ops)*interval, +interval]; " +
		"distinct by (case, outcome); non-trivial = at least one element delivered and >= 2 moves",
	"C09": "plus programs at scale in bubbles (whole Seq/stage/ToSeq programs with lengths, capacities, worker counts, numbers of inputs, rates and tick counts swept over 2^k-1, 2^k, 2^k+1 and round numbers; deadlock of the bubble = the program cannot finish); fork.Map/FMap/Filter/Partition/ForEach/Void (Pure and Try modes) x worker counts 1..8 (16, 64 thorough) x inputs 0..60 x per-element virtual processing delays that permute the completion order of in-flight calls x scripts (all interleavings of producer/consumers/cancel on inputs up to the bound with 1-3 workers, then seed-random with bursts and clock advances) x GOMAXPROCS per child; " +
		"online: delivered is a sub-multiset of the sequential result, nothing closes early; completion: multiset equality, one call per element, all closed, census empty; cancel: census empty within the bound, channels close, no element called twice; real-time soak; " +
		"distinct by (case, observed outcome incl. output order); non-trivial = at least one element delivered and >= 2 moves",
	"C10": "plus programs at scale in bubbles (whole Seq/stage/ToSeq programs with lengths, capacities, worker counts, numbers of inputs, rates and tick counts swept over 2^k-1, 2^k, 2^k+1 and round numbers; deadlock of the bubble = the program cannot finish); fork.Fold over commutative monoids (sum, product of odd numbers, max over negatives, min over positives, bitwise and, or, xor) x worker counts 1..8 (16, 64 thorough) x input lengths 0,1,2,3,par-1,par,par+1,2par+1,17,40 x virtual delays in Combine x producer/consumer scripts; " +
		"oracle: plain left fold from the identity; exactly one value, channel closed, no goroutine left; real-time soak; distinct by (case, outcome); non-trivial = at least one value delivered and >= 2 moves",
	"C08": "plus programs at scale in bubbles (whole Seq/stage/ToSeq programs with lengths, capacities, worker counts, numbers of inputs, rates and tick counts swept over 2^k-1, 2^k, 2^k+1 and round numbers; deadlock of the bubble = the program cannot finish); pipe.New under scripts of environment moves in synctest bubbles: fill/drain cycles that empty the queue repeatedly, bursts of sends racing cancel, cancel with backlog and slow receiver, sender close with backlog / racing a receive / racing cancel, backlogs up to 10^4, capacities 0-8, " +
		"seed-random scripts with 1-3 senders; online monitor: no send is pending at a quiescent point before cancel/close, no early close; final: drained sequence is an order-preserving duplicate-free selection of what was sent, every send completed before cancel() (sequence-numbered) is delivered, receive side closes; " +
		"plus real-time histories of 1-4 senders and 1-3 receivers checked with porcupine against a FIFO-queue model, and a real-time soak (conservation, per-sender order); " +
		"distinct by (case, observed outcome); non-trivial = at least one value delivered and >= 2 moves",
	"C07": "fault enumeration: for every input length up to the bound, ALL subsets of failing positions x {Map, FMap} x {Lift/LiftF, Try/TryF} x capacities {0,1,2,4} x consumer disciplines (values first, errors first, alternating, random waited, random bursts, two always-ready consumers); " +
		"Emit with every failure bitmap over its call indices under Lift and Try, Unfold failing at every single position of its orbit (fail-fast); then seed-random longer inputs with failure densities 0..100%; " +
		"oracle: list model with failure bitmap (values, errors as unique ids in order, calls of the user function, closure of both channels, no goroutine left); " +
		"distinct by (case, observed outcome); non-trivial = at least one value or error delivered",
	"C06": "all 14 stages (+StdErr-wrapped variants) x capacities x scripts of environment moves: all interleavings of producer program(s) (sends, close), consumer programs (single receives), virtual-clock advances and one cancel for inputs up to the length bound, " +
		"the same without cancel, then seed-random scripts (inputs <= 25, capacity <= 5, bursts, absent consumers, unclosed inputs); online monitor at every quiescent point: delivered is a prefix of the uncancelled result, nothing closes early; " +
		"end games: completion (all closed, no library goroutine left, pacer excepted) and cancellation (cancel, inputs closed, nobody receiving: library goroutines gone within the stage's tick bound, then every channel reports closed); failure values include errors whose Error method panics and typed-nil pointers; morphism values are shared across cases; " +
		"distinct by (case, observed outcome); non-trivial = at least one element delivered and >= 2 moves",
	"C05": "sequential stages (Map, FMap fan-out 0-3, Filter, Take all n, TakeWhile, Partition, Fold non-commutative/non-zero empty, ForEach, Void) x input capacity x scripts of environment moves without cancel: " +
		"all interleavings of the producer program (sends, close) with the consumer programs for inputs up to the length bound and capacities 0-2, then seed-random scripts (inputs <= 40, capacity <= 8, bursts); " +
		"end game: send the rest, close, drain; oracle: list function of the issued input, user-function call log, elements removed from the input; plus programs at scale in bubbles (whole Seq/stage/ToSeq programs with lengths, capacities, worker counts, numbers of inputs, rates and tick counts swept over 2^k-1, 2^k, 2^k+1 and round numbers; deadlock of the bubble = the program cannot finish); " +
		"distinct by (case, observed outcome); non-trivial = at least one element delivered and >= 2 moves",
}

func TestMain(m *testing.M) {
	slog.SetDefault(slog.New(slog.NewTextHandler(io.Discard, nil)))
	rec = common.New(common.Prop, rules[common.Prop])
	code := m.Run()
	rec.Finish()
	os.Exit(code)
}

func TestRun(t *testing.T) {
	_ = runtime.NumCPU
	if common.Replay != "" {
		var c caseT
		if err := common.LoadReplay(&c); err != nil {
			rec.Inconclusive("cannot load replay: " + err.Error())
			return
		}
		if strings.HasPrefix(c.Stage, "prog/") {
			repro := 0
			for i := 0; i < 3; i++ {
				if !runProg(t, common.Prop, &c) {
					repro++
				}
			}
			rec.Note("replay: the violation reproduced in " + itoa(repro) + " of 3 runs")
			return
		}
		n := 20
		repro := 0
		for i := 0; i < n; i++ {
			w := runCase(t, &c, hooksFor(common.Prop))
			if w != nil && len(w.viol) > 0 {
				repro++
			}
		}
		rec.Note("replay: the violation reproduced in " + itoa(repro) + " of " + itoa(n) + " runs")
		return
	}
	switch common.Prop {
	case "C05":
		genC05(t)
	case "C06":
		genC06(t)
	case "C07":
		genC07(t)
	case "C08":
		genC08(t)
	case "C09":
		genC09(t)
	case "C10":
		genC10(t)
	case "C11":
		genC11(t)
	case "C12":
		genC12(t)
	case "C13":
		genC13(t)
	default:
		t.Fatalf("no generator for %q", common.Prop)
	}
}

func hooksFor(prop string) hooks {
	switch prop {
	case "C06":
		return c06Hooks()
	case "C07":
		return c07Hooks()
	case "C08":
		return c08Hooks()
	case "C09":
		return c09Hooks()
	case "C11":
		return c11Hooks()
	case "C13":
		return c13Hooks()
	}
	return hooks{}
}

func itoa(i int) string { return string(appendInt(nil, i)) }
func appendInt(b []byte, i int) []byte {
	if i >= 10 {
		b = appendInt(b, i/10)
	}
	return append(b, byte('0'+i%10))
}

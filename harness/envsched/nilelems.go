package envsched

import (
	"context"
	"errors"
	"fmt"
	"reflect"
	"slices"

	"verif/harness/common"

	"github.com/fogfish/golem/pipe/v2"
	"github.com/fogfish/golem/pipe/v2/fork"
	"github.com/fogfish/golem/pure/monoid"
)

// Stages are generic in their element type. The scheduler works with int ids; this companion runs
// every stage once more over interface-typed elements (any, error) that include the nil interface
// value — an element like any other — with closed inputs, and compares with the list functions.

var errNil = errors.New("e")

func nilCase(prop, stage string, f func() (got, want any)) {
	c := &caseT{Site: stage + "/interface-elements", Stage: stage, Comment: "elements of an interface type, nil values included"}
	id := common.ID("nil-" + stage)
	if common.Skip(id) {
		return
	}
	rec.Begin(id, c)
	defer rec.End(id)
	var got, want any
	ok := soakGuard(stage, func() {
		if p := common.Catch(func() { got, want = f() }); p != nil {
			rec.Violate(prop+"/"+c.Site+"/panic", fmt.Sprint(p), c)
			got, want = nil, nil
		}
	})
	if !ok {
		return
	}
	if !reflect.DeepEqual(got, want) {
		rec.Violate(prop+"/"+c.Site+"/result", fmt.Sprintf("delivered %v, the list function gives %v", got, want), c)
	}
	rec.Eval("nil-"+stage, true)
	rec.Count("interface_element_cases", 1)
}

func anys() []any      { return []any{1, nil, "a", nil, 2.5, nil} }
func errs() []error    { return []error{nil, errNil, nil, nil, errNil} }
func isNil(v any) bool { return v == nil }

func nilElemsSequential(prop string) {
	ctx, cancel := context.WithCancel(context.Background())
	defer cancel()
	id := pipe.Pure(func(v any) any { return v })
	nilCase(prop, "Map", func() (any, any) {
		out, _ := pipe.Map(ctx, pipe.Seq(anys()...), id)
		return pipe.ToSeq(out), anys()
	})
	nilCase(prop, "Map[error]", func() (any, any) {
		out, _ := pipe.Map(ctx, pipe.Seq(errs()...), pipe.Pure(func(e error) error { return e }))
		return pipe.ToSeq(out), errs()
	})
	nilCase(prop, "FMap", func() (any, any) {
		out, _ := pipe.FMap(ctx, pipe.Seq(anys()...), pipe.LiftF(func(ctx context.Context, v any, out chan<- any) error {
			out <- v
			out <- nil
			return nil
		}))
		var want []any
		for _, v := range anys() {
			want = append(want, v, nil)
		}
		return pipe.ToSeq(out), want
	})
	nilCase(prop, "Filter", func() (any, any) {
		return pipe.ToSeq(pipe.Filter(ctx, pipe.Seq(anys()...), pipe.Pure(isNil))), []any{nil, nil, nil}
	})
	nilCase(prop, "Take", func() (any, any) {
		return pipe.ToSeq(pipe.Take(ctx, pipe.Seq(anys()...), 4)), anys()[:4]
	})
	nilCase(prop, "TakeWhile", func() (any, any) {
		return pipe.ToSeq(pipe.TakeWhile(ctx, pipe.Seq(anys()...), pipe.Pure(func(v any) bool { return v != 2.5 }))), anys()[:4]
	})
	nilCase(prop, "Partition", func() (any, any) {
		l, r := pipe.Partition(ctx, pipe.Seq(anys()...), pipe.Pure(isNil))
		return [][]any{pipe.ToSeq(l), pipe.ToSeq(r)}, [][]any{{nil, nil, nil}, {1, "a", 2.5}}
	})
	nilCase(prop, "Fold", func() (any, any) {
		op := func(a, b any) any { return fmt.Sprintf("%v%v", a, b) }
		var want any
		for _, v := range anys() {
			want = op(want, v)
		}
		return pipe.ToSeq(pipe.Fold(ctx, pipe.Seq(anys()...), monoid.FromOp[any](nil, op))), []any{want}
	})
	nilCase(prop, "ForEach", func() (any, any) {
		var seen []any
		<-pipe.ForEach(ctx, pipe.Seq(anys()...), pipe.Pure(func(v any) any { seen = append(seen, v); return v }))
		return seen, anys()
	})
	nilCase(prop, "Throttling", func() (any, any) {
		return pipe.ToSeq(pipe.Throttling(ctx, pipe.Seq(anys()...), 100, 1)), anys()
	})
	nilCase(prop, "Unfold", func() (any, any) {
		n := 0
		out, _ := pipe.Unfold(ctx, 0, any(nil), pipe.Pure(func(v any) any {
			n++
			if n%2 == 0 {
				return nil
			}
			return n
		}))
		return pipe.ToSeq(pipe.Take(ctx, out, 5)), []any{nil, 1, nil, 3, nil}
	})
}

func nilElemsJoin(prop string) {
	ctx, cancel := context.WithCancel(context.Background())
	defer cancel()
	nilCase(prop, "Join", func() (any, any) {
		got := pipe.ToSeq(pipe.Join(ctx, pipe.Seq[any](1, nil, 2), pipe.Seq[any](nil, "a", nil)))
		nils, rest := 0, []any{}
		for _, v := range got {
			if v == nil {
				nils++
			} else if _, isInt := v.(int); isInt {
				rest = append(rest, v) // order of the first input's non-nil elements
			}
		}
		return []any{len(got), nils, rest}, []any{6, 3, []any{1, 2}}
	})
	nilCase(prop, "Join[error]", func() (any, any) {
		got := pipe.ToSeq(pipe.Join(ctx, pipe.Seq(errs()...), pipe.Seq[error](nil)))
		nils := 0
		for _, v := range got {
			if v == nil {
				nils++
			}
		}
		return []int{len(got), nils}, []int{6, 4}
	})
}

func nilElemsNew(prop string) {
	nilCase(prop, "New", func() (any, any) {
		ctx, cancel := context.WithCancel(context.Background())
		rcv, snd := pipe.New[any](ctx, 1)
		for _, v := range anys() {
			snd <- v
		}
		var got []any
		for range anys() {
			got = append(got, <-rcv)
		}
		cancel()
		return got, anys()
	})
	nilCase(prop, "New[error]", func() (any, any) {
		ctx, cancel := context.WithCancel(context.Background())
		rcv, snd := pipe.New[error](ctx, 0)
		for _, v := range errs() {
			snd <- v
		}
		close(snd)
		cancel()
		return pipe.ToSeq(rcv), errs()
	})
}

func nilElemsFork(prop string) {
	ctx, cancel := context.WithCancel(context.Background())
	defer cancel()
	count := func(xs []any) any {
		nils, n := 0, 0
		for _, v := range xs {
			n++
			if v == nil {
				nils++
			}
		}
		return []int{n, nils}
	}
	nilCase(prop, "fork.Map", func() (any, any) {
		out, _ := fork.Map(ctx, 3, fork.Seq(anys()...), fork.Pure(func(v any) any { return v }))
		return count(fork.ToSeq(out)), []int{6, 3}
	})
	nilCase(prop, "fork.Filter", func() (any, any) {
		return count(fork.ToSeq(fork.Filter(ctx, 2, fork.Seq(anys()...), fork.Pure(isNil)))), []int{3, 3}
	})
	nilCase(prop, "fork.Partition", func() (any, any) {
		l, r := fork.Partition(ctx, 2, fork.Seq(anys()...), fork.Pure(isNil))
		done := make(chan []any)
		go func() { done <- fork.ToSeq(r) }()
		ls := fork.ToSeq(l)
		return []any{count(ls), count(<-done)}, []any{[]int{3, 3}, []int{3, 0}}
	})
	nilCase(prop, "fork.FMap", func() (any, any) {
		out, _ := fork.FMap(ctx, 2, fork.Seq(anys()...), fork.LiftF(func(ctx context.Context, v any, out chan<- any) error {
			out <- v
			return nil
		}))
		return count(fork.ToSeq(out)), []int{6, 3}
	})
}

// A failure may be a typed nil pointer stored in an error (var e *notFound; return v, e): it is not the nil
// error, so the element failed, and its Error method must not be called by the stages (it dereferences).
type notFound struct{ key string }

func (e *notFound) Error() string { return "not found: " + e.key }

func typedNilFailures(prop string) {
	ctx, cancel := context.WithCancel(context.Background())
	defer cancel()
	f := func(x int) (int, error) {
		if x%3 == 0 {
			var e *notFound
			return 0, e
		}
		return x * 2, nil
	}
	xs := []int{1, 2, 3, 4, 5, 6, 7, 9, 10}
	want := []int{2, 4, 8, 10, 14, 20}
	nilCase(prop, "Map+StdErr/typed-nil-failure", func() (any, any) {
		return pipe.ToSeq(pipe.StdErr(pipe.Map(ctx, pipe.Seq(xs...), pipe.Try(f)))), want
	})
	nilCase(prop, "Map/typed-nil-failure", func() (any, any) {
		out, exx := pipe.Map(ctx, pipe.Seq(xs...), pipe.Try(f))
		n := 0
		done := make(chan struct{})
		go func() {
			defer close(done)
			for e := range exx {
				if p, ok := e.(*notFound); ok && p == nil {
					n++
				}
			}
		}()
		got := pipe.ToSeq(out)
		<-done
		return fmt.Sprint(got, n), fmt.Sprint(want, 3)
	})
	nilCase(prop, "Map/Lift/typed-nil-failure", func() (any, any) {
		out, exx := pipe.Map(ctx, pipe.Seq(xs...), pipe.Lift(f))
		got := pipe.ToSeq(out)
		var es []error
		for e := range exx {
			es = append(es, e)
		}
		return fmt.Sprint(got, len(es)), fmt.Sprint([]int{2, 4}, 1)
	})
	// every failure is of an uncomparable dynamic type (a list of field errors): nothing may compare two of them
	fs := func(x int) (int, error) {
		if x%3 != 1 {
			return 0, sliceErr{x, x}
		}
		return x * 2, nil
	}
	nilCase(prop, "Map+StdErr/uncomparable-failures", func() (any, any) {
		return pipe.ToSeq(pipe.StdErr(pipe.Map(ctx, pipe.Seq(xs...), pipe.Try(fs)))), []int{2, 8, 14, 20}
	})
	nilCase(prop, "fork.Map+StdErr/uncomparable-failures", func() (any, any) {
		got := fork.ToSeq(fork.StdErr(fork.Map(ctx, 2, fork.Seq(xs...), fork.Try(fs))))
		slices.Sort(got)
		return got, []int{2, 8, 14, 20}
	})
	nilCase(prop, "fork.Map+StdErr/typed-nil-failure", func() (any, any) {
		got := fork.ToSeq(fork.StdErr(fork.Map(ctx, 3, fork.Seq(xs...), fork.Try(f))))
		slices.Sort(got)
		return got, want
	})
}

package envsched

import (
	"fmt"
	"slices"
	"sort"
	"strings"
	"testing"
	"testing/synctest"
	"time"

	"verif/harness/common"
)

var rec *common.Recorder

// violation classes enabled per property (a check reports only what its property states)
var classes = map[string][]string{
	"C05": {"runaway", "result", "calls", "consumed", "not-closed", "panic", "deadlock"},
	"C06": {"runaway", "prefix", "closed-early", "not-closed", "leak", "leak-after-cancel", "not-closed-after-cancel", "panic", "deadlock", "fold-partial"},
	"C07": {"runaway", "result", "errors", "calls", "not-closed", "prefix", "closed-early", "panic", "deadlock", "leak"},
	"C08": {"send-blocked", "fifo", "lost", "closed-early", "not-closed", "sender-close", "panic", "deadlock", "linearizability"},
	"C09": {"runaway", "closed-before-workers", "result", "errors", "calls", "prefix", "closed-early", "not-closed", "leak", "leak-after-cancel", "not-closed-after-cancel", "panic", "deadlock"},
	"C10": {"runaway", "result", "not-closed", "panic", "deadlock", "leak"},
	"C11": {"runaway", "result", "prefix", "calls", "pace", "closed-early", "leak-after-cancel", "not-closed-after-cancel", "panic", "deadlock", "errors"},
	"C12": {"runaway", "result", "prefix", "closed-early", "not-closed", "panic", "deadlock", "leak"},
	"C13": {"runaway", "result", "prefix", "rate", "schedule", "closed-early", "not-closed", "panic", "deadlock"},
}

func enabled(class string) bool {
	return slices.Contains(classes[common.Prop], class)
}

func (w *world) bad(class, format string, a ...any) {
	if !enabled(class) {
		return
	}
	w.violate(common.Prop+"/"+w.c.Site+"/"+class, format, a...)
}

// ---------------------------------------------------------------- helpers on sequences

func isPrefix(got, exp []int) bool {
	return len(got) <= len(exp) && slices.Equal(got, exp[:len(got)])
}

func subMultiset(got, exp []int) bool {
	m := map[int]int{}
	for _, x := range exp {
		m[x]++
	}
	for _, x := range got {
		if m[x] == 0 {
			return false
		}
		m[x]--
	}
	return true
}

func sameMultiset(a, b []int) bool {
	if len(a) != len(b) {
		return false
	}
	x, y := slices.Clone(a), slices.Clone(b)
	sort.Ints(x)
	sort.Ints(y)
	return slices.Equal(x, y)
}

// interleaveOK: got restricted to each input's elements must be a prefix of that input
func interleaveOK(got []int, inputs [][]int) bool {
	owner := map[int]int{}
	for i, in := range inputs {
		for _, x := range in {
			owner[x] = i
		}
	}
	pos := make([]int, len(inputs))
	for _, x := range got {
		i, ok := owner[x]
		if !ok || pos[i] >= len(inputs[i]) || inputs[i][pos[i]] != x {
			return false
		}
		pos[i]++
	}
	return true
}

// strip removes the values a failing arrow may or may not have emitted before failing
func (e expectT) strip(got []int) []int {
	if len(e.optional) == 0 {
		return got
	}
	out := got[:0:0]
	for _, v := range got {
		if !e.optional[v] {
			out = append(out, v)
		}
	}
	return out
}

// ---------------------------------------------------------------- the generic online monitor

// issuedCase returns a copy of the case whose inputs are what has been commanded so far.
func (w *world) issuedCase() (*caseT, []snap) {
	c2 := *w.c
	c2.Inputs = make([][]int, len(w.ins))
	snaps := make([]snap, len(w.ins))
	for i, p := range w.ins {
		snaps[i] = p.snap()
		c2.Inputs[i] = snaps[i].issued
	}
	return &c2, snaps
}

func (w *world) inputsClosedAndConsumed(ins []snap) bool {
	for i, p := range w.ins {
		p.mu.Lock()
		cl := p.closedByU
		p.mu.Unlock()
		if !cl || len(ins[i].sent) != len(ins[i].issued) || ins[i].buffered != 0 {
			return false
		}
	}
	return true
}

// earlyDone: may the stage legitimately have terminated without its input being closed?
func (c *caseT) earlyDone() bool {
	in := []int{}
	if len(c.Inputs) > 0 {
		in = c.Inputs[0]
	}
	switch c.Stage {
	case "Take":
		return len(in) >= c.N
	case "TakeWhile":
		for _, x := range in {
			if !c.okPredW(x) {
				return true
			}
		}
	case "Map", "FMap", "Map+StdErr", "FMap+StdErr", "fork.Map", "fork.FMap":
		if c.Mode == "lift" {
			if c.Stage == "fork.Map" || c.Stage == "fork.FMap" {
				// the stage ends early only when every worker has met a failing element
				nf := 0
				for _, x := range in {
					if c.fails(x) {
						nf++
					}
				}
				return nf >= c.Par
			}
			for _, x := range in {
				if c.fails(x) {
					return true
				}
			}
		}
	}
	return false
}

func (w *world) monitor() {
	if len(w.ins) == 0 {
		return // sources have their own monitors
	}
	c2, ins := w.issuedCase()
	e := c2.expect()
	for j, p := range w.outs {
		if j >= len(e.outs) {
			break
		}
		s := p.snap()
		got := e.strip(s.ints())
		exp := e.outs[j]
		ok := true
		switch e.kind {
		case "seq":
			ok = isPrefix(got, exp)
		case "multiset":
			ok = subMultiset(got, exp)
		case "interleave":
			ok = subMultiset(got, exp) && interleaveOK(got, c2.Inputs)
		}
		if !ok {
			if (c2.Stage == "Fold" || c2.Stage == "fork.Fold") && w.cancelled && len(got) == 1 && w.isPartialFold(got[0], c2) {
				w.bad("fold-partial", "after cancel Fold delivered %d, the accumulator of a proper prefix of the consumed input %v; the uncancelled result is %v", got[0], c2.Inputs[0], exp)
			} else {
				w.bad("prefix", "%s delivered %v, which is not a prefix (%s) of the uncancelled result %v for input %v", p.name, got, e.kind, exp, c2.Inputs)
			}
		}
		if s.closed && !w.cancelled && c2.NilInput {
			w.bad("closed-early", "%s reported closed although a nil channel is among the inputs (it never closes) and the context is not cancelled", p.name)
		} else if s.closed && !w.cancelled && c2.Stage != "New" {
			if !(w.inputsClosedAndConsumed(ins) || c2.earlyDone()) {
				w.bad("closed-early", "%s reported closed while an input is still open or undelivered (issued %v, sent %v, buffered %d) and the context is not cancelled", p.name, c2.Inputs, ins[0].sent, ins[0].buffered)
			} else if !(e.kind == "seq" && slices.Equal(got, exp) || e.kind != "seq" && sameMultiset(got, exp) || e.partial) {
				if !w.stageStoppedByError(c2) {
					w.bad("closed-early", "%s closed after delivering %v, but the complete result for input %v is %v", p.name, got, c2.Inputs, exp)
				}
			}
		}
	}
	if enabled("closed-before-workers") {
		for _, p := range w.allPorts() {
			if s := p.snap(); s.closed {
				if g := w.libGoroutines(); g > w.persist {
					w.bad("closed-before-workers", "%s reports closed while %d goroutine(s) of the stage are still running (outputs must close only after every worker has finished):\n%s", p.name, g, strings.Join(w.census(), "\n--\n"))
				}
				break
			}
		}
	}
	for j, p := range w.errs {
		if j > 0 {
			break
		}
		s := p.snap()
		got := s.ints()
		ok := true
		if e.kind == "multiset" {
			ok = subMultiset(got, e.errs)
		} else {
			ok = isPrefix(got, e.errs)
		}
		if !ok {
			w.bad("prefix", "%s delivered errors %v, not a prefix of the expected errors %v (input %v, failing %v)", p.name, got, e.errs, c2.Inputs, c2.Fail)
		}
	}
}

// in fork stages a Lift failure stops one worker only; nothing is asserted about it here
func (w *world) stageStoppedByError(c2 *caseT) bool { return false }

func (w *world) isPartialFold(v int, c2 *caseT) bool {
	m := c2.monoidOf()
	in := c2.Inputs[0]
	for k := 0; k < len(in); k++ {
		if m.fold(in[:k]) == v {
			return true
		}
	}
	return false
}

// ---------------------------------------------------------------- end games

func (w *world) allClosed() bool {
	for _, p := range w.allPorts() {
		p.mu.Lock()
		cl := p.closed
		p.mu.Unlock()
		if !cl {
			return false
		}
	}
	return true
}

func (w *world) tick() time.Duration {
	if w.c.Tick > 0 {
		return time.Duration(w.c.Tick)
	}
	return time.Millisecond
}

// complete: send the rest, close the inputs, drain every output; everything must close,
// deliver exactly the list image and leave no goroutine behind (pacer excepted).
func (w *world) endComplete() {
	w.sendRestAndClose()
	w.drainAll()
	w.quiesce()
	// stages on the virtual clock need time to pass
	total := 0
	for _, in := range w.c.Inputs {
		total += len(in)
	}
	for i := 0; i < 2*(total+w.c.Par+8) && !w.allClosed() && w.c.Tick > 0; i++ {
		time.Sleep(w.tick())
		w.quiesce()
	}
	c2, _ := w.issuedCase()
	e := c2.expect()
	for _, p := range w.allPorts() {
		s := p.snap()
		if !s.closed {
			w.bad("not-closed", "inputs closed and outputs drained, but %s never reported closed (received %v)", p.name, s.ints())
		}
	}
	for j, p := range w.outs {
		if j >= len(e.outs) {
			break
		}
		got := e.strip(p.snap().ints())
		ok := slices.Equal(got, e.outs[j])
		if e.kind == "multiset" {
			ok = sameMultiset(got, e.outs[j])
		} else if e.kind == "interleave" {
			ok = sameMultiset(got, e.outs[j]) && interleaveOK(got, c2.Inputs)
		}
		if e.partial {
			ok = subMultiset(got, e.outs[j])
		}
		if !ok {
			w.bad("result", "%s delivered %v, the list function gives %v (%s) for input %v", p.name, got, e.outs[j], e.kind, c2.Inputs)
		}
	}
	if len(w.errs) > 0 {
		got := w.errs[0].snap().ints()
		ok := slices.Equal(got, e.errs)
		if e.kind == "multiset" {
			ok = sameMultiset(got, e.errs)
		}
		if e.partial {
			ok = subMultiset(got, e.errs)
		}
		if !ok {
			w.bad("errors", "error channel delivered %v, expected %v (input %v failing %v mode %s)", got, e.errs, c2.Inputs, c2.Fail, c2.Mode)
		}
	}
	w.checkCalls(e, c2)
	if e.eat >= 0 && len(w.ins) > 0 {
		s := w.ins[0].snap()
		consumed := len(s.sent) - s.buffered
		if consumed > e.eat {
			w.bad("consumed", "stage removed %d elements from its input, at most %d allowed (sent %d, still buffered %d)", consumed, e.eat, len(s.sent), s.buffered)
		}
	}
	if g := w.libGoroutinesAllow(w.persist); g > w.persist {
		w.bad("leak", "inputs closed and outputs drained: %d library goroutine(s) still alive (allowed %d):\n%s", g, w.persist, strings.Join(w.census(), "\n--\n"))
	}
}

func (w *world) checkCalls(e expectT, c2 *caseT) {
	calls, _, n := w.callLog()
	if e.kind == "seq" && e.calls != nil || (e.kind == "seq" && (c2.Stage == "ForEach")) {
		if !slices.Equal(calls, e.calls) {
			w.bad("calls", "user function was called on %v, expected exactly %v in this order", calls, e.calls)
		}
	} else if e.kind == "multiset" && e.partial {
		for x, k := range n {
			if k > 1 {
				w.bad("calls", "user function was called %d times on element %d", k, x)
			}
		}
	} else if e.kind == "multiset" && c2.Stage != "fork.Fold" && c2.Stage != "fork.Void" {
		for _, x := range c2.Inputs[0] {
			if n[x] != 1 {
				w.bad("calls", "user function was called %d times on element %d (exactly once required); call log %v", n[x], x, calls)
				break
			}
		}
		if len(calls) != len(c2.Inputs[0]) {
			w.bad("calls", "user function was called %d times for %d elements: %v", len(calls), len(c2.Inputs[0]), calls)
		}
	}
}

// cancel: after cancel and closed inputs, with nobody receiving, every library goroutine
// must exit within the stage's bound of virtual ticks; then every channel must report closed.
func (w *world) endCancel(bound int) {
	w.cancel()
	for _, p := range w.allPorts() {
		p.abortOps("")
	}
	for _, p := range w.ins {
		p.abortOps("close")
	}
	w.closeInputs()
	w.quiesce()
	ticks := 0
	for w.libGoroutines() > 0 && ticks < bound {
		time.Sleep(w.tick())
		w.quiesce()
		ticks++
	}
	rec.Max("max_ticks_to_exit_after_cancel", int64(ticks))

	if g := w.libGoroutines(); g > 0 {
		w.bad("leak-after-cancel", "context cancelled, inputs closed, nobody receiving, %d virtual tick(s) later: %d library goroutine(s) still alive:\n%s", ticks, g, strings.Join(w.census(), "\n--\n"))
	}
	w.drainAll()
	w.quiesce()
	for _, p := range w.allPorts() {
		s := p.snap()
		if !s.closed {
			w.bad("not-closed-after-cancel", "after cancel %s never reported closed when drained (received %v); pending=%q queued=%d; library goroutines now: %d\n%s\nlast events: %v", p.name, s.ints(), s.pending, s.queued, w.libGoroutines(), strings.Join(w.census(), "\n--\n"), w.tailEvents(12))
		}
	}
}

// cancel-drain: after cancel (inputs closed) the consumers KEEP draining. A correct stage may legally
// deliver a few more values (select picks a ready send over ctx.Done with probability 1/2 each time),
// so the number delivered after cancel is geometrically distributed: more than postCancelLimit + the
// buffered ones has probability < 2^-64. Then everything must be closed and every goroutine gone.
const postCancelLimit = 64

func (w *world) endCancelDrain(bound int) {
	before := map[*port]int{}
	w.limitDrain.Store(true)
	w.cancel()
	for _, p := range w.ins {
		p.abortOps("close")
	}
	w.closeInputs()
	for _, p := range w.allPorts() {
		before[p] = len(p.snap().got)
	}
	w.drainAll()
	w.quiesce()
	ticks := 0
	for (w.libGoroutines() > 0 || !w.allClosed()) && ticks < bound+postCancelLimit && w.c.Tick > 0 && isSource(w.c.Stage) {
		time.Sleep(w.tick())
		w.quiesce()
		ticks++
	}
	for _, p := range w.allPorts() {
		s := p.snap()
		extra := len(s.got) - before[p]
		allowed := postCancelLimit
		if p.capF != nil {
			allowed += p.capF()
		}
		for _, in := range w.ins {
			allowed += len(in.snap().issued) // elements already handed to the stage may legally flow out
		}
		if isSource(w.c.Stage) && extra > allowed {
			w.bad("leak-after-cancel", "context cancelled, consumers keep draining: %s delivered %d more values after cancel (a stage that honours cancel stops after a few; limit %d)", p.name, extra, allowed)
		}
		if !s.closed {
			w.bad("not-closed-after-cancel", "context cancelled, inputs closed, consumers draining: %s never reported closed (%d values after cancel)", p.name, extra)
		}
	}
	if g := w.libGoroutines(); g > 0 {
		w.bad("leak-after-cancel", "context cancelled, inputs closed, consumers draining: %d library goroutine(s) still alive:\n%s", g, strings.Join(w.census(), "\n--\n"))
	}
}

// ---------------------------------------------------------------- running one case

type hooks struct {
	online func(w *world) // extra online monitor
	final  func(w *world) // extra checks after the end game, before teardown
	preEnd func(w *world) // extra checks after the script, before the end game
	bound  func(c *caseT) int
}

func runCase(t *testing.T, c *caseT, h hooks) *world {
	id := common.ID(c.String())
	if common.Skip(id) {
		return nil
	}
	rec.Begin(id, c)
	defer rec.End(id)
	var w *world
	pn := common.Catch(func() {
		synctest.Test(t, func(t *testing.T) {
			w = newWorld(c)
			w.build()
			w.onQuiescent = func(w *world) {
				w.monitor()
				w.checkDeco()
				if h.online != nil {
					h.online(w)
				}
			}
			w.quiesce()
			w.exec(c.Script)
			if h.preEnd != nil {
				h.preEnd(w)
			}
			switch c.End {
			case "complete":
				w.endComplete()
			case "cancel":
				b := 0
				if h.bound != nil {
					b = h.bound(c)
				}
				w.endCancel(b)
			case "cancel-drain":
				b := 0
				if h.bound != nil {
					b = h.bound(c)
				}
				w.endCancelDrain(b)
			}
			if h.final != nil {
				h.final(w)
			}
			w.teardown()
		})
	})
	if w != nil && w.runaway.Load() {
		w.bad("runaway", "the stage called its function more than %d times without the case coming to rest (calls are not paced or do not stop)", callBudget)
	}
	if pn != nil {
		msg := fmt.Sprint(pn)
		if w == nil {
			w = &world{c: c}
		}
		if strings.Contains(msg, "deadlock") {
			if len(w.viol) == 0 && !c.NilInput {
				w.bad("deadlock", "bubble ended with goroutines blocked forever: %s", msg)
			}
		} else {
			w.bad("panic", "panic in the bubble: %s", msg)
		}
	}
	delivered := 0
	for _, p := range w.allPorts() {
		delivered += len(p.snap().got)
	}
	for _, v := range w.viol {
		rec.Violate(v.sig, v.desc, c)
	}
	outcome := ""
	for _, p := range w.allPorts() {
		s := p.snap()
		outcome += fmt.Sprint(s.ints(), s.closed)
	}
	rec.Eval(c.String()+outcome, delivered > 0 && len(c.Script) >= 2)
	rec.Count("quiescent_points", int64(w.quiescents))
	rec.Count("elements_delivered", int64(delivered))
	calls, _, _ := w.callLog()
	rec.Count("user_function_calls", int64(len(calls)))
	w.emu.Lock()
	rec.Count("events_recorded", int64(len(w.events)))
	w.emu.Unlock()
	if rec.WantSample() {
		outs := map[string]any{}
		for _, p := range w.allPorts() {
			s := p.snap()
			outs[p.name] = map[string]any{"got": s.ints(), "closed": s.closed}
		}
		w.emu.Lock()
		ev := w.events
		if len(ev) > 30 {
			ev = ev[:30]
		}
		rec.Sample(map[string]any{"case": c, "observed": outs, "first_events": slices.Clone(ev), "quiescent_points": w.quiescents})
		w.emu.Unlock()
	}
	return w
}

// ---------------------------------------------------------------- script generation helpers

// all interleavings of the given sequences (order within each kept)
func interleavings(seqs [][]string, emit func([]string)) {
	idx := make([]int, len(seqs))
	total := 0
	for _, s := range seqs {
		total += len(s)
	}
	cur := make([]string, 0, total)
	var rec func()
	rec = func() {
		if len(cur) == total {
			emit(slices.Clone(cur))
			return
		}
		for i, s := range seqs {
			if idx[i] < len(s) {
				cur = append(cur, s[idx[i]])
				idx[i]++
				rec()
				idx[i]--
				cur = cur[:len(cur)-1]
			}
		}
	}
	rec()
}

type rng interface {
	IntN(int) int
	Uint64() uint64
}

// one random interleaving; with probability burstPct/100 a move gets the no-wait flag
func randInterleave(r rng, seqs [][]string, burstPct int) []string {
	idx := make([]int, len(seqs))
	var out []string
	for {
		var live []int
		for i, s := range seqs {
			if idx[i] < len(s) {
				live = append(live, i)
			}
		}
		if len(live) == 0 {
			return out
		}
		i := live[r.IntN(len(live))]
		m := seqs[i][idx[i]]
		idx[i]++
		if r.IntN(100) < burstPct {
			m += "!"
		}
		out = append(out, m)
	}
}

// wide picks a value below n, but now and then a much larger one (unusual configurations)
func wide(r rng, n int, big ...int) int {
	if len(big) > 0 && r.IntN(12) == 0 {
		return big[r.IntN(len(big))]
	}
	return r.IntN(n)
}

func rep(m string, n int) []string {
	out := make([]string, n)
	for i := range out {
		out[i] = m
	}
	return out
}

func ids(base, n int) []int {
	out := make([]int, n)
	for i := range out {
		out[i] = base + i + 1
	}
	return out
}

func (w *world) tailEvents(n int) []event {
	w.emu.Lock()
	defer w.emu.Unlock()
	ev := w.events
	if len(ev) > n {
		ev = ev[len(ev)-n:]
	}
	return slices.Clone(ev)
}

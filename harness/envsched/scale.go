package envsched

import (
	"context"
	"fmt"
	"slices"
	"strings"
	"sync"
	"sync/atomic"
	"testing"
	"testing/synctest"
	"time"

	"verif/harness/common"

	"github.com/fogfish/golem/pipe/v2"
	"github.com/fogfish/golem/pipe/v2/fork"
	"github.com/fogfish/golem/pure/monoid"
)

// Programs at scale. The move scripts of the engine keep inputs small so that every interleaving can be
// tried; a second family runs whole user programs (the way the library's examples are written: Seq, a stage,
// ToSeq) inside a bubble with parameters swept across the sizes where implementations change behaviour -
// 2^k-1, 2^k, 2^k+1 and round decimal numbers for capacities, lengths, worker counts, numbers of inputs,
// rates, numbers of ticks. The oracle is the list function; a program that cannot finish ends as a bubble
// deadlock (every goroutine durably blocked), which is recovered and reported. A case is (program, parameters)
// and is replayable from its JSON like a script case (Stage = "prog/<name>").

type progFn func(c *caseT) string // runs inside the bubble; "" = held, otherwise what deviated

// Package fork repeats the sequential entry points of package pipe (Join, Take, TakeWhile, Throttling, Emit, Unfold,
// Seq, ToSeq, StdErr) as its own functions. Programs written against apiT run once per variant (caseT.Comment ==
// "fork" selects the fork entry points): a wrapper is held to the same statement as what it wraps.
type apiT struct {
	name       string
	Join       func(context.Context, ...<-chan int) <-chan int
	Throttling func(context.Context, <-chan int, int, time.Duration) <-chan int
	Seq        func(...int) <-chan int
	ToSeq      func(<-chan int) []int
	Take       func(context.Context, <-chan int, int) <-chan int
	TakeWhile  func(context.Context, <-chan int, func(int) bool) <-chan int
	StdErr     func(<-chan int, <-chan error) <-chan int
	Emit       func(ctx context.Context, cap int, tick time.Duration, mode string, f func(int) (int, error)) (<-chan int, <-chan error)
	Unfold     func(ctx context.Context, cap int, seed int, mode string, f func(int) (int, error)) (<-chan int, <-chan error)
}

var pipeAPI = apiT{
	name: "pipe", Join: pipe.Join[int], Throttling: pipe.Throttling[int], Seq: pipe.Seq[int], ToSeq: pipe.ToSeq[int], Take: pipe.Take[int], StdErr: pipe.StdErr[int],
	TakeWhile: func(ctx context.Context, in <-chan int, f func(int) bool) <-chan int {
		return pipe.TakeWhile(ctx, in, pipe.Pure(f))
	},
	Emit: func(ctx context.Context, cap int, tick time.Duration, mode string, f func(int) (int, error)) (<-chan int, <-chan error) {
		return pipe.Emit(ctx, cap, tick, pipeF(mode, f))
	},
	Unfold: func(ctx context.Context, cap int, seed int, mode string, f func(int) (int, error)) (<-chan int, <-chan error) {
		return pipe.Unfold(ctx, cap, seed, pipeF(mode, f))
	},
}

var forkAPI = apiT{
	name: "fork", Join: fork.Join[int], Throttling: fork.Throttling[int], Seq: fork.Seq[int], ToSeq: fork.ToSeq[int], Take: fork.Take[int], StdErr: fork.StdErr[int],
	TakeWhile: func(ctx context.Context, in <-chan int, f func(int) bool) <-chan int {
		return fork.TakeWhile(ctx, in, fork.Pure(f))
	},
	Emit: func(ctx context.Context, cap int, tick time.Duration, mode string, f func(int) (int, error)) (<-chan int, <-chan error) {
		return fork.Emit(ctx, cap, tick, forkF(mode, f))
	},
	Unfold: func(ctx context.Context, cap int, seed int, mode string, f func(int) (int, error)) (<-chan int, <-chan error) {
		return fork.Unfold(ctx, cap, seed, forkF(mode, f))
	},
}

var api = pipeAPI

var progs = map[string]progFn{}

// ctxOf: the kinds of context a program may be given
func ctxOf(kind string) (context.Context, func()) {
	type key struct{}
	switch kind {
	case "background":
		return context.Background(), func() {}
	case "todo":
		return context.TODO(), func() {}
	case "without-cancel":
		p, cf := context.WithCancel(context.Background())
		return context.WithoutCancel(p), cf
	case "value-on-background":
		return context.WithValue(context.Background(), key{}, 1), func() {}
	case "value":
		p, cf := context.WithCancel(context.Background())
		return context.WithValue(p, key{}, 1), cf
	case "deadline-far":
		return context.WithTimeout(context.Background(), 1000*time.Hour)
	}
	return context.WithCancel(context.Background())
}

func thresholds(lo, hi int) []int {
	var out []int
	for _, v := range []int{0, 1, 2, 3, 5, 10, 100, 1000, 3000, 10000, 12345} {
		out = append(out, v)
	}
	for k := 2; k <= 16; k++ {
		out = append(out, 1<<k-1, 1<<k, 1<<k+1)
	}
	slices.Sort(out)
	out = slices.Compact(out)
	var sel []int
	for _, v := range out {
		if v >= lo && v <= hi {
			sel = append(sel, v)
		}
	}
	return sel
}

var progN int

func runProg(t *testing.T, prop string, c *caseT) bool {
	progN++
	if common.Replay == "" && progN%common.NBatch != common.Batch {
		return true
	}
	name := strings.TrimPrefix(c.Stage, "prog/")
	f := progs[name]
	if f == nil {
		panic("unknown program " + name)
	}
	c.Site = c.Stage
	id := common.ID(fmt.Sprintf("prog %+v", *c))
	if common.Skip(id) {
		return true
	}
	rec.Begin(id, c)
	defer rec.End(id)
	desc := ""
	api = pipeAPI
	if c.Comment == "fork" {
		api = forkAPI
	}
	pn := common.Catch(func() {
		synctest.Test(t, func(t *testing.T) {
			desc = f(c)
			// the program is over (its context cancelled): give the stages virtual time to wind down before the
			// bubble's main goroutine leaves, a goroutine still asleep at that moment would count as a deadlock
			for i := 0; i < 50 && len(libCensus()) > 0; i++ {
				time.Sleep(2 * time.Duration(max(c.Tick, 1000)))
				synctest.Wait()
			}
		})
	})
	held := true
	if desc != "" {
		rec.Violate(prop+"/"+c.Stage+"/result", desc, c)
		held = false
	} else if pn != nil {
		msg := fmt.Sprint(pn)
		if strings.Contains(msg, "deadlock") && c.End == "pacer-stays" {
			// a throttling stage under a context that can never be cancelled keeps its pacer for good (the property
			// allows the pacer until cancel): the bubble cannot end cleanly, the verdict was taken before
		} else if strings.Contains(msg, "deadlock") {
			rec.Violate(prop+"/"+c.Stage+"/deadlock", "the program cannot finish: every goroutine of the bubble is blocked forever ("+firstLine(msg)+")"+blockedStacks(msg), c)
		} else {
			rec.Violate(prop+"/"+c.Stage+"/panic", "panic: "+firstLine(msg), c)
		}
		held = false
	}
	rec.Eval(fmt.Sprintf("prog %+v", *c), true)
	rec.Count("programs_run", 1)
	if rec.WantSample() {
		rec.Sample(map[string]any{"case": c, "observed": "program finished, result equals the list model"})
	}
	return held
}

func firstLine(s string) string {
	s, _, _ = strings.Cut(s, "\n")
	if len(s) > 300 {
		s = s[:300]
	}
	return s
}

func seqInts(base, n int) []int {
	xs := make([]int, n)
	for i := range xs {
		xs[i] = base + i
	}
	return xs
}

func diffAt(got, want []int) string {
	for i := 0; i < len(got) && i < len(want); i++ {
		if got[i] != want[i] {
			return fmt.Sprintf("first difference at position %d: got %d, the list function gives %d (lengths %d / %d)", i, got[i], want[i], len(got), len(want))
		}
	}
	return fmt.Sprintf("lengths differ: got %d elements, the list function gives %d", len(got), len(want))
}

// census of library goroutines of the current bubble
func libCensus() []string { return (&world{}).census() }

// ---------------------------------------------------------------- C05

func init() {
	// the library's own idiom (its Partition test): both halves of a pre-filled sequence collected one after the
	// other. Each output can hold the whole input (capacities follow the input's), so the order of collection is free.
	progs["partition-sequential"] = func(c *caseT) string {
		ctx, cancel := context.WithCancel(context.Background())
		defer cancel()
		xs := seqInts(1, c.N)
		pred := func(x int) bool { return mix(x, c.FSeed)%3 != 0 }
		var in <-chan int = pipe.Seq(xs...)
		var late chan int
		if c.Arg == "late-producer" {
			// the input is still empty when the stage is built and is filled afterwards: the halves follow the input's
			// CAPACITY, whatever it holds at that moment
			late = make(chan int, len(xs))
			in = late
		}
		l, r := pipe.Partition(ctx, in, pipe.Pure(pred))
		if late != nil {
			for _, x := range xs {
				late <- x
			}
			close(late)
		}
		var ls, rs []int
		if c.Mode == "right-first" {
			rs = pipe.ToSeq(r)
			ls = pipe.ToSeq(l)
		} else {
			ls = pipe.ToSeq(l)
			rs = pipe.ToSeq(r)
		}
		var wl, wr []int
		for _, x := range xs {
			if pred(x) {
				wl = append(wl, x)
			} else {
				wr = append(wr, x)
			}
		}
		if !slices.Equal(ls, wl) {
			return "Partition left: " + diffAt(ls, wl)
		}
		if !slices.Equal(rs, wr) {
			return "Partition right: " + diffAt(rs, wr)
		}
		return ""
	}
	// a chain of stages over a pre-filled sequence, the error channels read to their end before the values
	progs["chain-errors-first"] = func(c *caseT) string {
		ctx, cancel := context.WithCancel(context.Background())
		defer cancel()
		xs := seqInts(1, c.N)
		f := func(x int) int { return x*3 + 1 }
		p := func(x int) bool { return mix(x, c.FSeed)%4 != 0 }
		a, ea := pipe.Map(ctx, pipe.Seq(xs...), pipe.Pure(f))
		b := pipe.Filter(ctx, a, pipe.Pure(p))
		d, ed := pipe.FMap(ctx, b, pipe.LiftF(func(ctx context.Context, x int, out chan<- int) error {
			select {
			case out <- -x:
			case <-ctx.Done():
			}
			return nil
		}))
		e := api.TakeWhile(ctx, d, func(x int) bool { return true })
		g := api.Take(ctx, e, c.N+1)
		for range ea {
			return "Map delivered an error, the function does not fail"
		}
		for range ed {
			return "FMap delivered an error, the function does not fail"
		}
		got := api.ToSeq(g)
		var want []int
		for _, x := range xs {
			if y := f(x); p(y) {
				want = append(want, -y)
			}
		}
		if !slices.Equal(got, want) {
			return "Map|Filter|FMap|TakeWhile|Take: " + diffAt(got, want)
		}
		return ""
	}
	// Seq takes the sequence it is given: what the caller does with its slice afterwards is its own business
	progs["seq-then-reuse-buffer"] = func(c *caseT) string {
		buf := seqInts(7, c.N)
		want := slices.Clone(buf)
		ch := api.Seq(buf...)
		callerOwnsRefill(buf) // the batch buffer is refilled for the next call
		got := api.ToSeq(ch)
		if !slices.Equal(got, want) && !(len(got) == 0 && len(want) == 0) {
			return "ToSeq(Seq(buf...)) after the caller reused buf: " + diffAt(got, want)
		}
		return ""
	}
	progs["fold-long"] = func(c *caseT) string {
		ctx, cancel := context.WithCancel(context.Background())
		defer cancel()
		xs := seqInts(3, c.N)
		m := monoid.FromOp(7, func(a, b int) int { return a*31 + b })
		got := pipe.ToSeq(pipe.Fold(ctx, pipe.Seq(xs...), m))
		want := 7
		for _, x := range xs {
			want = want*31 + x
		}
		if len(got) != 1 || got[0] != want {
			return fmt.Sprintf("Fold over %d elements gave %v, the left fold gives %d", c.N, got, want)
		}
		return ""
	}
}

func progsC05(t *testing.T) {
	progsArrowContext(t, "C05", []string{"LiftF", "TryF"})
	progsExtremeArgs(t, "C05")
	progsPingPong(t, "C05", []string{"Map", "FMap", "Filter", "TakeWhile", "Take", "Partition"})
	progsHuge(t, "C05")
	progsSlow(t, "C05")
	progsInPlaceMonoid(t, "C05", []int{0})
	typedProgs(t, "C05")
	for _, n := range thresholds(0, common.Pick(5000, 70000)) {
		for _, mode := range []string{"left-first", "right-first"} {
			runProg(t, "C05", &caseT{Stage: "prog/partition-sequential", N: n, Cap: n, Mode: mode, FSeed: uint64(n)})
			runProg(t, "C05", &caseT{Stage: "prog/partition-sequential", N: n, Cap: n, Mode: mode, FSeed: uint64(n), Arg: "late-producer"})
		}
		for _, v := range []string{"", "fork"} {
			runProg(t, "C05", &caseT{Stage: "prog/chain-errors-first", N: n, Cap: n, FSeed: uint64(n) + 5, Comment: v})
			runProg(t, "C05", &caseT{Stage: "prog/seq-then-reuse-buffer", N: n, Cap: n, Comment: v})
		}
		runProg(t, "C05", &caseT{Stage: "prog/fold-long", N: n, Cap: n})
	}
}

// ---------------------------------------------------------------- C08

func init() {
	// busy periods of exactly N values (the queue goes from empty to N waiting values and back to empty), each
	// followed by a few more sends: nothing sent may be lost whatever N is
	progs["new-busy-periods"] = func(c *caseT) string {
		ctx, cancel := context.WithCancel(context.Background())
		rcv, snd := pipe.New[int](ctx, c.Cap)
		next, want := 1, 1
		recv := func(k int) string {
			for i := 0; i < k; i++ {
				v, ok := <-rcv
				if !ok {
					return fmt.Sprintf("receive side closed while value %d, whose send completed, was not delivered", want)
				}
				if v != want {
					return fmt.Sprintf("received %d, value %d was sent before it and not delivered", v, want)
				}
				want++
			}
			return ""
		}
		for round := 0; round < 3; round++ {
			for i := 0; i < c.N; i++ {
				snd <- next
				next++
			}
			if c.Mode == "interleaved" {
				// the receiver catches up in two steps with a send in between
				if d := recv(c.N / 2); d != "" {
					return d
				}
				snd <- next
				next++
				if d := recv(c.N - c.N/2 + 1); d != "" {
					return d
				}
			} else if d := recv(c.N); d != "" {
				return d
			}
			synctest.Wait()
			for i := 0; i < 2; i++ {
				snd <- next
				next++
			}
			if d := recv(2); d != "" {
				return d
			}
		}
		// end of stream with a backlog
		for i := 0; i < c.N%7+1; i++ {
			snd <- next
			next++
		}
		if c.End == "cancel" {
			synctest.Wait()
			cancel()
		} else {
			close(snd)
		}
		for v := range rcv {
			if v != want {
				return fmt.Sprintf("after %s: received %d, value %d was sent before it and not delivered", c.End, v, want)
			}
			want++
		}
		cancel()
		if want != next {
			return fmt.Sprintf("after %s the receive side closed with values %d..%d undelivered (their sends had completed)", c.End, want, next-1)
		}
		return ""
	}
}

func progsC08(t *testing.T) {
	progsPreCancel(t, "C08")
	progsHuge(t, "C08")
	progsSlow(t, "C08")
	typedProgs(t, "C08")
	for _, n := range thresholds(1, common.Pick(4100, 70000)) {
		for i, cp := range []int{0, 1, 3, 16, 17, 100, 1000} {
			if i > 1 && (n+i)%3 != 0 && !common.Thorough() {
				continue
			}
			for _, mode := range []string{"drain", "interleaved"} {
				for _, end := range []string{"close", "cancel"} {
					runProg(t, "C08", &caseT{Stage: "prog/new-busy-periods", N: n, Cap: cp, Mode: mode, End: end})
				}
			}
		}
	}
	// contexts that can never be cancelled (their Done channel is nil) and contexts with values or deadlines: the
	// sender's close is the only end of stream there, and everything sent before it is delivered
	for _, kind := range []string{"background", "todo", "without-cancel", "value", "value-on-background", "deadline-far"} {
		for _, n := range []int{0, 1, 2, 7, 100, 1025} {
			for _, cp := range []int{0, 1, 8} {
				runProg(t, "C08", &caseT{Stage: "prog/new-huge-backlog", N: n, Cap: cp, Arg: kind})
			}
		}
	}
	// capacities across the thresholds with a backlog a few times the capacity
	for _, cp := range thresholds(0, common.Pick(1100, 5000)) {
		for _, n := range []int{5, cp + 1, 2*cp + 3} {
			runProg(t, "C08", &caseT{Stage: "prog/new-busy-periods", N: n, Cap: cp, Mode: "interleaved", End: "close"})
		}
	}
}

// ---------------------------------------------------------------- C09 / C10

func init() {
	// fail-fast workers: every element from position N/2 on fails. The consumer reads the values to their end,
	// then the errors (each worker reports at most one error, the error channel has a slot per worker)
	progs["fork-lift-outage"] = func(c *caseT) string {
		ctx, cancel := context.WithCancel(context.Background())
		defer cancel()
		xs := seqInts(1, c.N)
		var calls atomic.Int64
		bad := func(x int) bool { return x > c.N/2 }
		var out <-chan int
		var exx <-chan error
		if c.Mode == "FMap" {
			out, exx = fork.FMap(ctx, c.Par, fork.Seq(xs...), fork.LiftF(func(ctx context.Context, x int, o chan<- int) error {
				calls.Add(1)
				if bad(x) {
					return idErr(x)
				}
				select {
				case o <- x * 2:
				case <-ctx.Done():
				}
				return nil
			}))
		} else {
			out, exx = fork.Map(ctx, c.Par, fork.Seq(xs...), fork.Lift(func(x int) (int, error) {
				calls.Add(1)
				if bad(x) {
					return 0, idErr(x)
				}
				return x * 2, nil
			}))
		}
		seen := map[int]int{}
		var errs []int
		collectOut := func() {
			for v := range out {
				seen[v]++
			}
		}
		collectErr := func() {
			for e := range exx {
				errs = append(errs, toInt(e))
			}
		}
		switch c.End {
		case "values-then-errors":
			collectOut()
			collectErr()
		default: // nobody receives: after cancel every goroutine still has to go
			synctest.Wait()
			cancel()
			synctest.Wait()
			if g := libCensus(); len(g) > 0 {
				return fmt.Sprintf("%d library goroutines are left after cancel with nobody receiving (par %d, %d failing elements), e.g.\n%s", len(g), c.Par, c.N-c.N/2, g[0])
			}
			collectOut()
			collectErr()
		}
		for v, k := range seen {
			if k != 1 || v%2 != 0 || v/2 < 1 || v/2 > c.N/2 {
				return fmt.Sprintf("value %d delivered %d times: not the image of a succeeding element exactly once", v, k)
			}
		}
		slices.Sort(errs)
		if len(slices.Compact(slices.Clone(errs))) != len(errs) {
			return fmt.Sprintf("an error was delivered twice: %v", errs)
		}
		for _, e := range errs {
			if !bad(e) {
				return fmt.Sprintf("error for element %d, which does not fail", e)
			}
		}
		if c.End != "cancel" && c.N-c.N/2 > 0 && len(errs) == 0 {
			return "no error delivered although elements failed"
		}
		if int(calls.Load()) > c.N {
			return fmt.Sprintf("%d calls for %d elements", calls.Load(), c.N)
		}
		return ""
	}
	// Try mode, wide: every failing element reports, every other element is delivered
	progs["fork-try-wide"] = func(c *caseT) string {
		ctx, cancel := context.WithCancel(context.Background())
		defer cancel()
		xs := seqInts(1, c.N)
		bad := func(x int) bool { return mix(x, c.FSeed)%3 == 0 || x > c.N-c.N/4 }
		out, exx := fork.Map(ctx, c.Par, fork.Seq(xs...), fork.Try(func(x int) (int, error) {
			if bad(x) {
				return 0, idErr(x)
			}
			return x * 2, nil
		}))
		var got, errs []int
		done := make(chan struct{})
		go func() {
			defer close(done)
			for e := range exx {
				errs = append(errs, toInt(e))
			}
		}()
		for v := range out {
			got = append(got, v/2)
		}
		<-done
		slices.Sort(got)
		slices.Sort(errs)
		var wg, we []int
		for _, x := range xs {
			if bad(x) {
				we = append(we, x)
			} else {
				wg = append(wg, x)
			}
		}
		if !slices.Equal(got, wg) {
			return "fork.Map/Try values (sorted): " + diffAt(got, wg)
		}
		if !slices.Equal(errs, we) {
			return "fork.Map/Try errors (sorted): " + diffAt(errs, we)
		}
		return ""
	}
	progs["fork-fold-wide"] = func(c *caseT) string {
		ctx, cancel := context.WithCancel(context.Background())
		defer cancel()
		md := (&caseT{Monoid: c.Monoid}).monoidOf()
		xs := make([]int, c.N)
		for i := range xs {
			v := int(mix(i, c.FSeed))
			switch c.Monoid {
			case "prod":
				v |= 1
			case "max":
				v = -(v & 0x7fffffff) - 1
			case "min":
				v = v&0x7fffffff + 1
			case "and":
				v |= 0x0f0f0f0f0f0f0f0f
			}
			xs[i] = v
		}
		got := fork.ToSeq(fork.Fold(ctx, c.Par, fork.Seq(xs...), monoid.FromOp(md.empty, md.op)))
		want := md.fold(xs)
		if len(got) != 1 || got[0] != want {
			return fmt.Sprintf("fork.Fold(par=%d, %s) over %d elements gave %v, the left fold from the identity gives %d", c.Par, c.Monoid, c.N, got, want)
		}
		return ""
	}
}

func widePars() []int {
	p := []int{1, 2, 3, 8, 15, 16, 17, 24, 31, 32, 33, 63, 64, 65, 100, 128, 129}
	if common.Thorough() {
		p = append(p, 255, 256, 257, 1000, 1025)
	}
	return p
}

func progsC09(t *testing.T) {
	progsForkCancel(t, "C09")
	progsGoexit(t, "C09")
	progsPreCancel(t, "C09")
	progsSlow(t, "C09")
	progsSlowErrors(t, "C09", []string{"fork.Map", "fork.FMap"})
	progsArrowContext(t, "C09", []string{"fork.LiftF"})
	progsPingPong(t, "C09", []string{"fork.Map", "fork.Filter"})
	typedProgs(t, "C09")
	for _, par := range widePars() {
		for _, n := range []int{par, 2*par + 1, 4*par + 40, 1000} {
			for _, mode := range []string{"Map", "FMap"} {
				// (the value output of a fork stage holds one slot per worker, not the whole input: reading the
				// errors to their end first is only possible for the sequential stages)
				for _, end := range []string{"values-then-errors", "cancel"} {
					runProg(t, "C09", &caseT{Stage: "prog/fork-lift-outage", Par: par, N: n, Mode: mode, End: end})
				}
			}
			runProg(t, "C09", &caseT{Stage: "prog/fork-try-wide", Par: par, N: n, FSeed: uint64(par + n)})
		}
	}
}

func progsC10(t *testing.T) {
	progsHuge(t, "C10")
	progsSlow(t, "C10")
	progsInPlaceMonoid(t, "C10", []int{1, 2, 3, 4, 8, 33})
	progsFoldMeet(t, "C10")
	for _, par := range widePars() {
		for _, mon := range []string{"sum", "prod", "max", "min", "and", "or"} {
			ns := []int{0, 1, par - 1, par, par + 1, 3*par + 7}
			if (par+len(mon))%4 == 0 || common.Thorough() {
				ns = append(ns, 1030*min(par, 4)+17, 20000) // a worker folds more than 1024 / 4096 elements
			}
			for _, n := range ns {
				runProg(t, "C10", &caseT{Stage: "prog/fork-fold-wide", Par: par, N: n, Monoid: mon, FSeed: uint64(par*31 + n)})
			}
		}
	}
}

// ---------------------------------------------------------------- C11

func init() {
	// a source that goes down for good: every index from N on fails under Try. The errors are taken by a
	// reader (as StdErr would); after cancel the emitter has to stop and close within a few ticks
	progs["emit-outage-then-cancel"] = func(c *caseT) string {
		ctx, cancel := context.WithCancel(context.Background())
		defer cancel()
		tick := time.Duration(c.Tick)
		var poisoned, runaway atomic.Bool
		var calls atomic.Int64
		f := func(i int) (int, error) {
			if poisoned.Load() {
				select {} // verdict taken: park the emitter so that the bubble can end
			}
			if calls.Add(1) > 2_000_000 {
				// two million calls and the virtual clock has not moved: the emitter does not pause between calls
				runaway.Store(true)
				select {}
			}
			if i >= c.N {
				return 0, idErr(i)
			}
			return i + 100, nil
		}
		em := "try"
		if c.Mode == "lift" {
			em = "lift"
		}
		out, exx := api.Emit(ctx, c.Cap, tick, em, f)
		nerr := 0
		errDone := make(chan struct{})
		if c.Mode == "try+stderr" {
			out = api.StdErr(out, exx) // the library's own error reader
			close(errDone)
		} else {
			go func() {
				defer close(errDone)
				for range exx {
					nerr++
				}
			}()
		}
		for i := 0; i < c.N; i++ {
			v, ok := <-out
			if !ok || v != i+100 {
				poisoned.Store(true)
				return fmt.Sprintf("value %d of Emit is %d (open=%v), expected %d", i, v, ok, i+100)
			}
		}
		time.Sleep(time.Duration(c.Delay) * tick) // the outage lasts a while
		synctest.Wait()
		if runaway.Load() {
			return fmt.Sprintf("Emit called its function two million times while the source was failing and the clock did not advance: failed indices are not paced (tick %v)", tick)
		}
		if c.Mode == "lift" {
			// fail-fast: the first failure ends the emitter by itself
			time.Sleep(4 * tick)
			synctest.Wait()
			if g := libCensus(); len(g) > 0 {
				poisoned.Store(true)
				return fmt.Sprintf("Emit under Lift is still running %d ticks after its function failed", c.Delay+4)
			}
			return ""
		}
		cancel()
		before := calls.Load()
		// with the error reader ready and the context done, the stage's select may take either branch: each further
		// failure is one more fair coin, so the bound is generous (2^-200) rather than a handful of ticks
		bound := 2*c.Cap + 200
		time.Sleep(time.Duration(bound) * tick)
		synctest.Wait()
		if g := libCensus(); len(g) > 0 {
			poisoned.Store(true)
			return fmt.Sprintf("Emit under Try keeps polling after cancel: %d further calls in %d ticks, goroutine still there (source failing on every index since %d, %d errors read)\n%s",
				calls.Load()-before, bound, c.N, nerr, g[0])
		}
		if _, ok := <-out; ok {
			return "value delivered after cancel although the source only fails"
		}
		<-errDone
		return ""
	}
	// long runs: pacing is the same at tick 10 and at tick 1000, also after the consumer fell behind for a while
	progs["emit-long-paced"] = func(c *caseT) string {
		ctx, cancel := context.WithCancel(context.Background())
		defer cancel()
		tick := time.Duration(c.Tick)
		start := time.Now()
		var mu sync.Mutex
		var callAt []time.Duration
		out, _ := api.Emit(ctx, c.Cap, tick, "pure", func(i int) (int, error) {
			mu.Lock()
			callAt = append(callAt, time.Since(start))
			mu.Unlock()
			if c.Mode == "slow-f" && i%97 == 5 {
				time.Sleep(3 * tick) // a slow call now and then
			}
			return i, nil
		})
		for i := 0; i < c.N; i++ {
			if c.Delay > 0 && i == c.Delay {
				time.Sleep(7*tick + tick/2) // the consumer falls behind once
			}
			v, ok := <-out
			if !ok || v != i {
				return fmt.Sprintf("value %d of Emit is %d (open=%v)", i, v, ok)
			}
			if at := time.Since(start); at < time.Duration(i+1)*tick {
				return fmt.Sprintf("value %d was available at %v, before %d ticks of %v had elapsed", i, at, i+1, tick)
			}
		}
		cancel()
		time.Sleep(time.Duration(2*c.Cap+3) * tick)
		synctest.Wait()
		if g := libCensus(); len(g) > 0 {
			return fmt.Sprintf("Emit is still there %d ticks after cancel:\n%s", 2*c.Cap+3, g[0])
		}
		mu.Lock()
		defer mu.Unlock()
		for k, at := range callAt {
			if at < time.Duration(k+1)*tick {
				return fmt.Sprintf("f(%d) was called at %v, before %d ticks of %v", k, at, k+1, tick)
			}
			if k > 0 && at-callAt[k-1] < tick {
				return fmt.Sprintf("f(%d) was called %v after f(%d): two calls within one tick of %v", k, at-callAt[k-1], k-1, tick)
			}
		}
		return ""
	}
	progs["unfold-long"] = func(c *caseT) string {
		ctx, cancel := context.WithCancel(context.Background())
		defer cancel()
		step := func(x int) int { return x*3 + 1 }
		out, _ := api.Unfold(ctx, c.Cap, 5, "pure", func(x int) (int, error) { return step(x), nil })
		want := 5
		for i := 0; i < c.N; i++ {
			v, ok := <-out
			if !ok || v != want {
				return fmt.Sprintf("value %d of Unfold is %d (open=%v), expected %d", i, v, ok, want)
			}
			want = step(want)
		}
		return ""
	}
}

func progsC11(t *testing.T) {
	if common.Batch == 1%common.NBatch {
		realTimeEmit("C11", common.Pick(1500, 6000), time.Millisecond, false)
		realTimeEmit("C11", common.Pick(700, 3000), 2*time.Millisecond, true)
	}
	progsEmitDeadline(t, "C11")
	progsPreCancel(t, "C11")
	typedProgs(t, "C11")
	for _, n := range []int{0, 1, 5, 40} {
		for _, cp := range []int{0, 1, 4, 64} {
			for _, outage := range []int{0, 3, 20, 300} {
				for _, mode := range []string{"try", "lift"} {
					runProg(t, "C11", &caseT{Stage: "prog/emit-outage-then-cancel", N: n, Cap: cp, Delay: outage, Mode: mode, Tick: int64(time.Millisecond)})
					runProg(t, "C11", &caseT{Stage: "prog/emit-outage-then-cancel", N: n, Cap: cp, Delay: outage, Mode: mode, Tick: int64(time.Millisecond), Comment: "fork"})
				}
			}
		}
	}
	for _, n := range thresholds(200, common.Pick(1100, 9000)) {
		for _, cp := range []int{0, 1, 8} {
			for _, hiccup := range []int{0, 20, n / 2} {
				for _, mode := range []string{"", "slow-f"} {
					if mode != "" && (n+cp+hiccup)%3 != 0 {
						continue
					}
					runProg(t, "C11", &caseT{Stage: "prog/emit-long-paced", N: n, Cap: cp, Delay: hiccup, Mode: mode, Tick: int64(2 * time.Millisecond)})
					if cp == 1 {
						runProg(t, "C11", &caseT{Stage: "prog/emit-long-paced", N: n, Cap: cp, Delay: hiccup, Mode: mode, Tick: int64(2 * time.Millisecond), Comment: "fork"})
					}
				}
			}
		}
		runProg(t, "C11", &caseT{Stage: "prog/unfold-long", N: n, Cap: n % 9})
		runProg(t, "C11", &caseT{Stage: "prog/unfold-long", N: n, Cap: n % 9, Comment: "fork"})
	}
}

// ---------------------------------------------------------------- C12

func init() {
	// one producer feeds K unbuffered inputs round-robin (coupled feeds): every input has to be read from the
	// start, whatever K is, or the producer never gets past the first unread one
	progs["join-round-robin"] = func(c *caseT) string {
		ctx, cancel := context.WithCancel(context.Background())
		defer cancel()
		k := c.N
		ins := make([]chan int, k)
		ro := make([]<-chan int, k)
		for i := range ins {
			ins[i] = make(chan int, c.Cap)
			ro[i] = ins[i]
		}
		out := api.Join(ctx, ro...)
		rounds := 3
		go func() {
			for r := 0; r < rounds; r++ {
				for i := range ins {
					ins[i] <- i*1000 + r
				}
			}
			for i := range ins {
				close(ins[i])
			}
		}()
		last := map[int]int{}
		n := 0
		for v := range out {
			i, r := v/1000, v%1000
			if l, ok := last[i]; ok && r != l+1 || !ok && r != 0 {
				return fmt.Sprintf("input %d: round %d follows round %d", i, r, l)
			}
			last[i] = r
			n++
		}
		if n != k*rounds {
			return fmt.Sprintf("%d of %d elements delivered before the output closed", n, k*rounds)
		}
		return ""
	}
	// many quiet feeds, a message on the last one only
	progs["join-quiet-feeds"] = func(c *caseT) string {
		ctx, cancel := context.WithCancel(context.Background())
		k := c.N
		ins := make([]chan int, k)
		ro := make([]<-chan int, k)
		for i := range ins {
			ins[i] = make(chan int, c.Cap)
			ro[i] = ins[i]
		}
		out := api.Join(ctx, ro...)
		go func() { ins[k-1] <- 42 }()
		synctest.Wait()
		select {
		case v := <-out:
			if v != 42 {
				return fmt.Sprintf("received %d, 42 was sent", v)
			}
		default:
			cancel()
			return fmt.Sprintf("the element sent on input %d of %d (all open, unbuffered) is not offered on the output at quiescence", k-1, k)
		}
		for i := range ins {
			close(ins[i])
		}
		if _, ok := <-out; ok {
			return "an element nobody sent"
		}
		cancel()
		return ""
	}
	// Join(ctx, scratch...) and the caller refills its scratch slice for the next group right away
	progs["join-then-reuse-slice"] = func(c *caseT) string {
		ctx, cancel := context.WithCancel(context.Background())
		defer cancel()
		groups := 4
		scratch := make([]<-chan int, c.N)
		var outs []<-chan int
		for g := 0; g < groups; g++ {
			callerOwnsFill(scratch, g)
			outs = append(outs, api.Join(ctx, scratch...))
		}
		callerOwnsClear(scratch)
		for g, o := range outs {
			got := api.ToSeq(o)
			slices.Sort(got)
			var want []int
			for i := 0; i < c.N; i++ {
				want = append(want, g*1000+i*10, g*1000+i*10+1, g*1000+i*10+2)
			}
			slices.Sort(want)
			if !slices.Equal(got, want) && !(len(got) == 0 && len(want) == 0) {
				return fmt.Sprintf("group %d (the caller reused its slice of inputs after Join returned): %s", g, diffAt(got, want))
			}
		}
		return ""
	}
}

func progsC12(t *testing.T) {
	progsJoinExtremes(t, "C12")
	if common.Batch == 3%common.NBatch {
		joinEarlyClose("C12", common.Pick(60_000, 1_000_000), false)
	}
	if common.Batch == 4%common.NBatch {
		joinEarlyClose("C12", common.Pick(30_000, 300_000), true)
	}
	progsJoinBulky(t, "C12")
	progsJoinCancel(t, "C12")
	progsHuge(t, "C12")
	progsC12Shared(t)
	progsSlow(t, "C12")
	typedProgs(t, "C12")
	for _, k := range thresholds(1, common.Pick(300, 2100)) {
		for _, cp := range []int{0, 1} {
			for _, v := range []string{"", "fork"} {
				runProg(t, "C12", &caseT{Stage: "prog/join-round-robin", N: k, Cap: cp, Comment: v})
				if cp == 0 {
					runProg(t, "C12", &caseT{Stage: "prog/join-quiet-feeds", N: k, Comment: v})
				}
			}
		}
		if k <= 70 {
			runProg(t, "C12", &caseT{Stage: "prog/join-then-reuse-slice", N: k})
			runProg(t, "C12", &caseT{Stage: "prog/join-then-reuse-slice", N: k, Comment: "fork"})
		}
	}
}

// ---------------------------------------------------------------- C13

func init() {
	// always-available input, always-ready consumer: element i is delivered in [floor(i/ops), +1] intervals and no
	// window of one interval holds more than 2*ops+1+c deliveries - for large rates too, and under contexts that
	// carry a deadline (the bound holds until the context is done)
	progs["throttle-steady"] = func(c *caseT) string {
		parent := context.Background()
		var stopAt time.Duration = -1
		start := time.Now()
		switch c.Mode {
		case "deadline-far":
			var cf context.CancelFunc
			parent, cf = context.WithTimeout(parent, 1000*time.Hour)
			defer cf()
		case "deadline-near":
			var cf context.CancelFunc
			stopAt = time.Duration(c.Delay) * time.Duration(c.Tick) / 2 // Delay = half intervals until the deadline
			parent, cf = context.WithTimeout(parent, stopAt)
			defer cf()
		case "value":
			type key struct{}
			parent = context.WithValue(parent, key{}, 1)
		}
		ctx, cancel := context.WithCancel(parent)
		defer cancel()
		ops, iv := c.N, time.Duration(c.Tick)
		total := ops + ops/2 + 3
		if c.Mode == "long" {
			total = ops * c.Delay // Delay = number of batches
		}
		if stopAt >= 0 {
			total = ops*(c.Delay/2+3) + 50
		}
		in := make(chan int, c.Cap)
		go func() {
			defer close(in)
			for i := 0; i < total; i++ {
				select {
				case in <- i:
				case <-ctx.Done():
					return
				}
			}
		}()
		out := api.Throttling(ctx, in, ops, iv)
		var at []time.Duration
		for v := range out {
			if v != len(at) {
				return fmt.Sprintf("element %d delivered at position %d", v, len(at))
			}
			at = append(at, time.Since(start))
		}
		closedAt := time.Since(start)
		if stopAt < 0 && len(at) != total {
			return fmt.Sprintf("%d of %d elements delivered", len(at), total)
		}
		if stopAt < 0 && total > 0 && closedAt != at[total-1] {
			// the producer closed the input right behind the last element: nothing is left to wait for
			return fmt.Sprintf("ops=%d interval=%v, %d elements: the output closed at %v, %v after the last element was delivered, although the input was closed by then", ops, iv, total, closedAt, closedAt-at[total-1])
		}
		lo := 0
		for i, ti := range at {
			if stopAt >= 0 && ti >= stopAt {
				break // the context is done: the rate is no longer promised
			}
			if min := time.Duration(i/ops) * iv; ti < min {
				return fmt.Sprintf("ops=%d interval=%v: element %d delivered at %v, earlier than floor(i/ops)*interval = %v (context: %s)", ops, iv, i, ti, min, c.Mode)
			}
			if max := time.Duration(i/ops+1) * iv; ti > max {
				return fmt.Sprintf("ops=%d interval=%v: element %d delivered at %v, later than %v with input always available and the consumer ready", ops, iv, i, ti, max)
			}
			for at[lo] <= ti-iv {
				lo++
			}
			if n := i - lo + 1; n > 2*ops+1+c.Cap {
				return fmt.Sprintf("ops=%d interval=%v cap=%d: %d deliveries within one interval ending at %v, bound is %d", ops, iv, c.Cap, n, ti, 2*ops+1+c.Cap)
			}
		}
		return ""
	}
}

func progsC13(t *testing.T) {
	progsDegenerate(t, "C13")
	if common.Batch == 5%common.NBatch {
		for _, ops := range []int{1 << 40, 1<<63 - 1} {
			realTimeHugeOps("C13", ops, false)
			realTimeHugeOps("C13", ops, true)
		}
	}
	if common.Batch == 1%common.NBatch {
		realTimeThrottle("C13", 1, common.Pick(3000, 12000), time.Millisecond, false)
	}
	if common.Batch == 2%common.NBatch {
		realTimeThrottle("C13", 3, common.Pick(6000, 20000), time.Millisecond, true)
	}
	progsC13Idle(t)
	typedProgs(t, "C13")
	for _, ops := range thresholds(1, common.Pick(4200, 70000)) {
		for i, cp := range []int{0, 1, 5} {
			if i > 0 && (ops+i)%4 != 0 {
				continue
			}
			for _, mode := range []string{"", "deadline-far", "value"} {
				if mode != "" && (ops+cp)%2 != 0 {
					continue
				}
				runProg(t, "C13", &caseT{Stage: "prog/throttle-steady", N: ops, Cap: cp, Mode: mode, Tick: int64(500 * time.Millisecond)})
				if ops%3 == 0 {
					runProg(t, "C13", &caseT{Stage: "prog/throttle-steady", N: ops, Cap: cp, Mode: mode, Tick: int64(500 * time.Millisecond), Comment: "fork"})
				}
			}
		}
	}
	// other round rates
	for _, ops := range []int{1500, 2500, 7500, 12345, 1025 * 3, 5000} {
		runProg(t, "C13", &caseT{Stage: "prog/throttle-steady", N: ops, Cap: 0, Tick: int64(time.Second)})
	}
	// intervals of a few nanoseconds up to a microsecond that the rate does not divide, thousands of batches
	for _, iv := range []time.Duration{7, 37, 100, time.Microsecond, 100 * time.Microsecond} {
		for _, ops := range []int{3, 6, 7, 11} {
			if time.Duration(ops) > iv {
				continue
			}
			runProg(t, "C13", &caseT{Stage: "prog/throttle-steady", N: ops, Cap: 0, Mode: "long", Delay: 6000, Tick: int64(iv)})
		}
	}
	// the context's own deadline falls at every half interval
	for _, ops := range []int{1, 2, 3, 7} {
		for half := 1; half <= 9; half++ {
			for _, cp := range []int{0, 2} {
				runProg(t, "C13", &caseT{Stage: "prog/throttle-steady", N: ops, Cap: cp, Mode: "deadline-near", Delay: half, Tick: int64(200 * time.Millisecond)})
			}
		}
	}
}

// blockedStacks keeps the first frames of the goroutines the deadlock report lists
func blockedStacks(msg string) string {
	_, rest, ok := strings.Cut(msg, "\n")
	if !ok {
		return ""
	}
	if len(rest) > 1500 {
		rest = rest[:1500]
	}
	return "\n" + rest
}

// The callerOwns* functions are the caller writing to a slice it owns after the library call it was passed to
// has returned. The driver treats a race report between one of them and a library goroutine as a violation
// (the library kept reading its argument), not as a harness race.

//go:noinline
func callerOwnsRefill(buf []int) {
	for i := range buf {
		buf[i] = -1 - i
	}
}

//go:noinline
func callerOwnsClear(s []<-chan int) {
	for i := range s {
		s[i] = nil
	}
}

//go:noinline
func callerOwnsFill(s []<-chan int, g int) {
	for i := range s {
		s[i] = pipe.Seq(g*1000+i*10, g*1000+i*10+1, g*1000+i*10+2)
	}
}

// ---------------------------------------------------------------- C06

func progsC06(t *testing.T) {
	progsDegenerate(t, "C06")
	progsGoexit(t, "C06")
	progsJoinCancel(t, "C06")
	progsPreCancel(t, "C06")
	progsSlow(t, "C06")
	typedProgs(t, "C06")
	// a source that fails for good, its errors taken by StdErr (or a reader), then cancel: everything has to go
	for _, n := range []int{0, 3} {
		for _, cp := range []int{0, 1, 8} {
			for _, outage := range []int{0, 5, 100} {
				for _, mode := range []string{"try", "try+stderr"} {
					runProg(t, "C06", &caseT{Stage: "prog/emit-outage-then-cancel", N: n, Cap: cp, Delay: outage, Mode: mode, Tick: int64(time.Millisecond)})
				}
			}
		}
	}
}

// ---------------------------------------------------------------- monoids over reference values

// A monoid whose carrier is a reference (a counter object, a map) commonly accumulates in place: Combine(a, b) adds b
// into a and returns a, and Empty() hands out a fresh accumulator. That is a lawful use of Fold as long as every
// fold (and every worker of a parallel fold) starts from its own Empty().
type tally struct{ sum, n int }

type tallyMonoid struct{}

func (tallyMonoid) Empty() *tally { return &tally{} }
func (tallyMonoid) Combine(a, b *tally) *tally {
	a.sum += b.sum
	a.n += b.n
	return a
}

type bagMonoid struct{}

func (bagMonoid) Empty() map[int]int { return map[int]int{} }
func (bagMonoid) Combine(a, b map[int]int) map[int]int {
	for k, v := range b {
		a[k] += v
	}
	return a
}

func init() {
	progs["fold-in-place-monoid"] = func(c *caseT) string {
		ctx, cancel := context.WithCancel(context.Background())
		defer cancel()
		ts := make([]*tally, c.N)
		bs := make([]map[int]int, c.N)
		wantSum := 0
		wantBag := map[int]int{}
		for i := range ts {
			ts[i] = &tally{sum: i + 1, n: 1}
			bs[i] = map[int]int{i % 5: 1, 100: 2}
			wantSum += i + 1
			wantBag[i%5]++
			wantBag[100] += 2
		}
		for round := 0; round < max(2, c.Delay); round++ { // the monoid value is used for more than one fold (Delay = number of folds)
			var gt []*tally
			var gb []map[int]int
			if c.Par > 0 {
				gt = fork.ToSeq(fork.Fold(ctx, c.Par, fork.Seq(ts...), tallyMonoid{}))
				gb = fork.ToSeq(fork.Fold(ctx, c.Par, fork.Seq(bs...), bagMonoid{}))
			} else {
				gt = pipe.ToSeq(pipe.Fold(ctx, pipe.Seq(ts...), tallyMonoid{}))
				gb = pipe.ToSeq(pipe.Fold(ctx, pipe.Seq(bs...), bagMonoid{}))
			}
			if len(gt) != 1 || gt[0] == nil || gt[0].sum != wantSum || gt[0].n != c.N {
				d := "nothing"
				if len(gt) == 1 && gt[0] != nil {
					d = fmt.Sprintf("sum %d over %d elements", gt[0].sum, gt[0].n)
				}
				return fmt.Sprintf("Fold (par %d, round %d) with an in-place counter monoid over %d elements gave %s, the left fold gives sum %d over %d", c.Par, round, c.N, d, wantSum, c.N)
			}
			if len(gb) != 1 || len(gb[0]) != len(wantBag) {
				return fmt.Sprintf("Fold (par %d, round %d) with an in-place multiset union gave %v, want %v", c.Par, round, gb, wantBag)
			}
			for k, v := range wantBag {
				if gb[0][k] != v {
					return fmt.Sprintf("Fold (par %d, round %d) with an in-place multiset union gave %v, want %v", c.Par, round, gb[0], wantBag)
				}
			}
			for i, x := range ts {
				if x.sum != i+1 || x.n != 1 || len(bs[i]) != 2 {
					return fmt.Sprintf("Fold changed input element %d", i)
				}
			}
		}
		return ""
	}
}

func progsInPlaceMonoid(t *testing.T, prop string, pars []int) {
	for _, par := range pars {
		for _, n := range []int{0, 1, 2, 3, par, par + 1, 10, 100} {
			runProg(t, prop, &caseT{Stage: "prog/fold-in-place-monoid", Par: par, N: n})
		}
		if par >= 2 {
			// many folds in a row: all workers see the input close at the same moment and hand their partial results
			// over together, each accumulator is still combined exactly once
			runProg(t, prop, &caseT{Stage: "prog/fold-in-place-monoid", Par: par, N: par + 1, Delay: common.Pick(400, 4000)})
			runProg(t, prop, &caseT{Stage: "prog/fold-in-place-monoid", Par: par, N: 64, Delay: common.Pick(400, 4000)})
		}
	}
}

// ---------------------------------------------------------------- slow parties

func init() {
	// nobody is in a hurry: the producer pauses P between sends and every consumer pauses Q between receives, for
	// pauses from a millisecond to an hour of virtual time. Without a cancel a stage waits as long as it takes.
	progs["slow-parties"] = func(c *caseT) string {
		ctx, cancel := context.WithCancel(context.Background())
		defer cancel()
		p, q := time.Duration(c.Tick), time.Duration(c.Delay)*time.Millisecond
		xs := seqInts(1, c.N)
		in := make(chan int, c.Cap)
		prodDone := make(chan struct{})
		go func() {
			defer close(prodDone)
			defer close(in)
			for _, x := range xs {
				time.Sleep(p)
				in <- x
			}
		}()
		slowly := func(ch <-chan int) []int {
			var got []int
			for v := range ch {
				got = append(got, v)
				time.Sleep(q)
			}
			return got
		}
		odd := func(x int) bool { return x%2 == 1 }
		var got, want []int
		switch c.Mode {
		case "Map":
			out, exx := pipe.Map(ctx, in, pipe.Pure(func(x int) int { return x * 10 }))
			go func() {
				for range exx {
				}
			}()
			got = slowly(out)
			for _, x := range xs {
				want = append(want, x*10)
			}
		case "FMap":
			out, exx := pipe.FMap(ctx, in, pipe.LiftF(func(ctx context.Context, x int, o chan<- int) error {
				for j := 0; j < 2; j++ {
					select {
					case o <- x*10 + j:
					case <-ctx.Done():
					}
				}
				return nil
			}))
			go func() {
				for range exx {
				}
			}()
			got = slowly(out)
			for _, x := range xs {
				want = append(want, x*10, x*10+1)
			}
		case "Filter":
			got = slowly(pipe.Filter(ctx, in, pipe.Pure(odd)))
			for _, x := range xs {
				if odd(x) {
					want = append(want, x)
				}
			}
		case "Take":
			got = slowly(pipe.Take(ctx, in, c.N-1))
			want = xs[:max(c.N-1, 0)]
			go func() { // whoever owns the input takes what Take leaves
				for range in {
				}
			}()
		case "TakeWhile":
			got = slowly(pipe.TakeWhile(ctx, in, pipe.Pure(func(x int) bool { return x < c.N })))
			want = xs[:max(c.N-1, 0)]
			go func() {
				for range in {
				}
			}()
		case "Partition":
			l, r := pipe.Partition(ctx, in, pipe.Pure(odd))
			var rs []int
			done := make(chan struct{})
			go func() { defer close(done); rs = slowly(r) }()
			got = slowly(l)
			<-done
			got = append(got, rs...)
			for _, x := range xs {
				if odd(x) {
					want = append(want, x)
				}
			}
			for _, x := range xs {
				if !odd(x) {
					want = append(want, x)
				}
			}
		case "Fold":
			got = slowly(pipe.Fold(ctx, in, monoid.FromOp(7, func(a, b int) int { return a*31 + b })))
			w := 7
			for _, x := range xs {
				w = w*31 + x
			}
			want = []int{w}
		case "ForEach":
			n := 0
			<-pipe.ForEach(ctx, in, pipe.Pure(func(x int) int { n++; time.Sleep(q); return x }))
			got, want = []int{n}, []int{c.N}
		case "Join":
			got = slowly(pipe.Join(ctx, in, pipe.Seq[int]()))
			want = xs
		case "New":
			rcv, snd := pipe.New[int](ctx, c.Cap)
			go func() {
				for x := range in {
					snd <- x
				}
				close(snd)
			}()
			got = slowly(rcv)
			want = xs
		case "fork.Map":
			out, exx := fork.Map(ctx, 3, in, fork.Pure(func(x int) int { time.Sleep(q / 2); return x * 10 }))
			go func() {
				for range exx {
				}
			}()
			got = slowly(out)
			slices.Sort(got)
			for _, x := range xs {
				want = append(want, x*10)
			}
		case "fork.Fold":
			got = slowly(fork.Fold(ctx, 3, in, monoid.FromOp(0, func(a, b int) int { return a + b })))
			want = []int{c.N * (c.N + 1) / 2}
		}
		<-prodDone // (Take and TakeWhile end before the producer does)
		if !slices.Equal(got, want) && !(len(got) == 0 && len(want) == 0) {
			return fmt.Sprintf("%s with a producer pausing %v and consumers pausing %v: %s", c.Mode, p, q, diffAt(got, want))
		}
		return ""
	}
}

var slowStages = map[string][]string{
	"C05": {"Map", "FMap", "Filter", "Take", "TakeWhile", "Partition", "Fold", "ForEach"},
	"C06": {"Map", "Filter", "Join"},
	"C08": {"New"}, "C09": {"fork.Map"}, "C10": {"fork.Fold"}, "C12": {"Join"},
}

func progsSlow(t *testing.T, prop string) {
	pauses := []time.Duration{0, time.Millisecond, time.Second, time.Minute, time.Hour}
	for _, st := range slowStages[prop] {
		for _, p := range pauses {
			for _, q := range pauses {
				if p == 0 && q == 0 {
					continue
				}
				for _, cp := range []int{0, 2} {
					runProg(t, prop, &caseT{Stage: "prog/slow-parties", Mode: st, N: 6, Cap: cp, Tick: int64(p), Delay: int(q / time.Millisecond)})
				}
			}
		}
	}
}

// ---------------------------------------------------------------- C13: idle, then a burst

func init() {
	// nothing arrives for a while (tokens pile up to one interval's worth), then a burst with a ready consumer: no
	// window of one interval may see more than 2*ops+1+c deliveries, under every kind of context
	progs["throttle-idle-burst"] = func(c *caseT) string {
		var ctx context.Context
		cancel := func() {}
		switch c.Mode {
		case "background":
			ctx = context.Background()
		case "todo":
			ctx = context.TODO()
		case "without-cancel":
			p, cf := context.WithCancel(context.Background())
			ctx = context.WithoutCancel(p)
			cancel = cf
		case "deadline-far":
			ctx, cancel = context.WithTimeout(context.Background(), 1000*time.Hour)
		default:
			ctx, cancel = context.WithCancel(context.Background())
		}
		defer cancel()
		ops, iv := c.N, time.Duration(c.Tick)
		in := make(chan int, c.Cap)
		out := api.Throttling(ctx, in, ops, iv)
		start := time.Now()
		var at []time.Duration
		total := 0
		burst := func(n int) string {
			done := make(chan struct{})
			go func() {
				defer close(done)
				for i := 0; i < n; i++ {
					in <- total + i
				}
			}()
			for i := 0; i < n; i++ {
				v := <-out
				if v != total+i {
					return fmt.Sprintf("element %d delivered at position %d", v, total+i)
				}
				at = append(at, time.Since(start))
			}
			<-done
			total += n
			return ""
		}
		idle := time.Duration(c.Delay) * iv / 4 // Delay = quarter intervals of idleness
		for round := 0; round < 3; round++ {
			time.Sleep(idle)
			if d := burst(4*ops + 3 + c.Cap); d != "" {
				return d
			}
		}
		time.Sleep(idle) // the input goes quiet (the bucket fills up) and is closed only then
		close(in)
		if _, ok := <-out; ok {
			return "an element nobody sent"
		}
		lo := 0
		for i, ti := range at {
			for at[lo] <= ti-iv {
				lo++
			}
			if n := i - lo + 1; n > 2*ops+1+c.Cap {
				return fmt.Sprintf("ops=%d interval=%v cap=%d, idle %v then a burst (context: %s): %d deliveries within one interval ending at %v, bound is %d", ops, iv, c.Cap, idle, c.Mode, n, ti, 2*ops+1+c.Cap)
			}
		}
		return ""
	}
}

func progsC13Idle(t *testing.T) {
	for _, ops := range []int{1, 2, 5, 16, 100} {
		for _, q := range []int{0, 1, 4, 5, 13, 40, 262, 4001} {
			for _, cp := range []int{0, 3} {
				for _, mode := range []string{"", "background", "todo", "without-cancel", "deadline-far"} {
					end := ""
					if mode == "background" || mode == "todo" || mode == "without-cancel" {
						end = "pacer-stays"
					}
					runProg(t, "C13", &caseT{Stage: "prog/throttle-idle-burst", N: ops, Cap: cp, Delay: q, Mode: mode, End: end, Tick: int64(200 * time.Millisecond)})
					if ops == 2 || ops == 16 {
						runProg(t, "C13", &caseT{Stage: "prog/throttle-idle-burst", N: ops, Cap: cp, Delay: q, Mode: mode, End: end, Tick: int64(200 * time.Millisecond), Comment: "fork"})
					}
				}
			}
		}
	}
}

// ---------------------------------------------------------------- C12: an input with more than one reader

func init() {
	// the same channel is read by two copiers (passed twice to one Join, or to two Joins): whichever copier gets an
	// element, the outputs together hold exactly what was sent - never a value nobody sent (elements are non-zero)
	progs["join-shared-input"] = func(c *caseT) string {
		ctx, cancel := context.WithCancel(context.Background())
		defer cancel()
		for rep := 0; rep < 200; rep++ {
			ch := make(chan int, c.Cap)
			n := c.N
			feed := func() {
				for i := 1; i <= n; i++ {
					ch <- rep*100000 + i
				}
				close(ch)
			}
			if c.Mode == "prefilled" && n <= c.Cap {
				feed()
			} else {
				go feed()
			}
			var got []int
			if c.End == "two-joins" {
				a, b := api.Join(ctx, ch), api.Join(ctx, ch, api.Seq())
				done := make(chan []int)
				go func() { done <- pipe.ToSeq(b) }()
				got = append(pipe.ToSeq(a), <-done...)
			} else {
				got = api.ToSeq(api.Join(ctx, ch, ch))
			}
			slices.Sort(got)
			if len(got) != n || (n > 0 && (got[0] != rep*100000+1 || got[n-1] != rep*100000+n)) {
				return fmt.Sprintf("round %d: %d elements sent on a channel of capacity %d read by two copiers (%s), the outputs hold %d elements: %v", rep, n, c.Cap, c.End, len(got), head(got))
			}
		}
		return ""
	}
}

func progsC12Shared(t *testing.T) {
	for _, cp := range []int{0, 1, 8, 64} {
		for _, n := range []int{1, 5, 40, 64, 200} {
			for _, mode := range []string{"prefilled", "live"} {
				for _, end := range []string{"same-join", "two-joins"} {
					runProg(t, "C12", &caseT{Stage: "prog/join-shared-input", N: n, Cap: cp, Mode: mode, End: end})
					if n == 40 {
						runProg(t, "C12", &caseT{Stage: "prog/join-shared-input", N: n, Cap: cp, Mode: mode, End: end, Comment: "fork"})
					}
				}
			}
		}
	}
}

func progsC07(t *testing.T) {
	progsGoexit(t, "C07")
	progsSlowErrors(t, "C07", []string{"Map", "FMap", "Emit"})
	progsStdErrChain(t, "C07")
}

package envsched

import (
	"context"
	"fmt"
	"runtime"
	"slices"
	"strings"
	"sync"
	"testing"
	"testing/synctest"
	"time"

	"verif/harness/common"

	"github.com/fogfish/golem/pipe/v2"
	"github.com/fogfish/golem/pipe/v2/fork"
	"github.com/fogfish/golem/pure/monoid"
)

// ---------------------------------------------------------------- very large volumes (2^18 ... 2^22 elements)

func hugeSizes() []int {
	if common.Thorough() {
		return []int{1<<18 + 1, 1<<20 + 7, 1<<21 + 3, 1<<22 + 1}
	}
	return []int{1<<18 + 1, 1<<20 + 7}
}

func init() {
	// everything is produced first and consumed afterwards: the backlog of the unbounded channel reaches N
	progs["new-huge-backlog"] = func(c *caseT) string {
		ctx, cancel := ctxOf(c.Arg)
		defer cancel()
		rcv, snd := pipe.New[int](ctx, c.Cap)
		for i := 1; i <= c.N; i++ {
			snd <- i // never waits for the receiver (a blocked send ends as the bubble's deadlock)
		}
		close(snd)
		want := 1
		for v := range rcv {
			if v != want {
				return fmt.Sprintf("backlog of %d values: position %d holds %d", c.N, want, v)
			}
			want++
		}
		if want != c.N+1 {
			return fmt.Sprintf("backlog of %d values: %d delivered", c.N, want-1)
		}
		return ""
	}
	// ToSeq collects a long stream from a live producer through a small buffer
	progs["toseq-live-long"] = func(c *caseT) string {
		ch := make(chan int, c.Cap)
		go func() {
			defer close(ch)
			for i := 1; i <= c.N; i++ {
				ch <- i
			}
		}()
		got := api.ToSeq(ch)
		if len(got) != c.N {
			return fmt.Sprintf("ToSeq of a live stream of %d elements returned %d", c.N, len(got))
		}
		for i, v := range got {
			if v != i+1 {
				return fmt.Sprintf("ToSeq of a live stream of %d elements: element %d = %d", c.N, i, v)
			}
		}
		return ""
	}
	// a pre-buffered very long input among the inputs of Join: per-input order
	progs["join-prebuffered-long"] = func(c *caseT) string {
		ctx, cancel := context.WithCancel(context.Background())
		defer cancel()
		a := make([]int, c.N)
		for i := range a {
			a[i] = i + 1
		}
		b := []int{-1, -2, -3}
		out := api.Join(ctx, api.Seq(a...), api.Seq(b...))
		la, lb, n := 0, 0, 0
		for v := range out {
			n++
			if v > 0 {
				if v != la+1 {
					return fmt.Sprintf("pre-buffered input of %d elements: element #%d arrives where #%d is expected", c.N, v, la+1)
				}
				la = v
			} else {
				if -v != lb+1 {
					return fmt.Sprintf("second input: element #%d arrives where #%d is expected", -v, lb+1)
				}
				lb = -v
			}
		}
		if n != c.N+3 {
			return fmt.Sprintf("%d of %d elements delivered", n, c.N+3)
		}
		return ""
	}
	// a wide fork.Fold over bulky values (the partial results are big, the workers many)
	progs["fork-fold-bulky"] = func(c *caseT) string {
		ctx, cancel := context.WithCancel(context.Background())
		defer cancel()
		type hist [4096]uint64
		xs := make([]hist, c.N)
		var want hist
		for i := range xs {
			xs[i][i%4096] = uint64(i + 1)
			xs[i][4095] += 3
			want[i%4096] += uint64(i + 1)
			want[4095] += 3
		}
		m := monoid.FromOp(hist{}, func(a, b hist) hist {
			for i := range a {
				a[i] += b[i]
			}
			return a
		})
		got := fork.ToSeq(fork.Fold(ctx, c.Par, fork.Seq(xs...), m))
		if len(got) != 1 || got[0] != want {
			return fmt.Sprintf("fork.Fold(par=%d) over %d histograms of 32 KiB gave %d values, or a wrong sum", c.Par, c.N, len(got))
		}
		return ""
	}
}

func progsHuge(t *testing.T, prop string) {
	for _, n := range hugeSizes() {
		switch prop {
		case "C05":
			runProg(t, prop, &caseT{Stage: "prog/seq-then-reuse-buffer", N: n, Cap: n})
			runProg(t, prop, &caseT{Stage: "prog/toseq-live-long", N: n, Cap: 8})
			runProg(t, prop, &caseT{Stage: "prog/toseq-live-long", N: n, Cap: 8, Comment: "fork"})
			runProg(t, prop, &caseT{Stage: "prog/chain-errors-first", N: n, Cap: n, FSeed: 3})
			runProg(t, prop, &caseT{Stage: "prog/fold-long", N: n, Cap: n})
		case "C08":
			runProg(t, prop, &caseT{Stage: "prog/new-huge-backlog", N: n, Cap: 0})
			runProg(t, prop, &caseT{Stage: "prog/new-huge-backlog", N: n, Cap: 64})
			if n <= 1<<18 {
				// contexts that can never be cancelled (their Done channel is nil) and contexts with values or deadlines
				for _, kind := range []string{"background", "todo", "without-cancel", "value", "value-on-background", "deadline-far"} {
					runProg(t, prop, &caseT{Stage: "prog/new-huge-backlog", N: n, Cap: n % 3, Arg: kind})
				}
			}
		case "C10":
			runProg(t, prop, &caseT{Stage: "prog/fork-fold-wide", Par: 1, N: n, Monoid: "sum", FSeed: 1})
			runProg(t, prop, &caseT{Stage: "prog/fork-fold-wide", Par: 2, N: 2 * n, Monoid: "sum", FSeed: 2})
			runProg(t, prop, &caseT{Stage: "prog/fork-fold-wide", Par: 3, N: n, Monoid: "prod", FSeed: 3})
		case "C12":
			runProg(t, prop, &caseT{Stage: "prog/join-prebuffered-long", N: n})
			runProg(t, prop, &caseT{Stage: "prog/join-prebuffered-long", N: n, Comment: "fork"})
		}
	}
	if prop == "C10" {
		for _, par := range []int{8, 1024, 1025, 1500} {
			runProg(t, prop, &caseT{Stage: "prog/fork-fold-bulky", Par: par, N: 50})
		}
	}
}

// ---------------------------------------------------------------- contexts that are already done at the call

func init() {
	// the stage is built under a context that is cancelled (or expired) before the call. Inputs are closed, nobody
	// receives: every returned channel still has to close and no goroutine may stay (C06 / C11)
	progs["built-after-cancel"] = func(c *caseT) string {
		parent := context.Background()
		var ctx context.Context
		var cancel context.CancelFunc
		if c.Mode == "expired" {
			ctx, cancel = context.WithDeadline(parent, time.Now().Add(-time.Second))
		} else {
			ctx, cancel = context.WithCancel(parent)
			cancel()
		}
		defer cancel()
		in := func() <-chan int { return pipe.Seq(seqInts(1, c.N)...) }
		id := func(x int) (int, error) { return x, nil }
		yes := func(int) bool { return true }
		var vals []<-chan int
		var errs []<-chan error
		var dones []<-chan struct{}
		tick := time.Millisecond
		switch c.Arg {
		case "Map":
			o, e := pipe.Map(ctx, in(), pipe.Lift(id))
			vals, errs = append(vals, o), append(errs, e)
		case "FMap":
			o, e := pipe.FMap(ctx, in(), pipe.LiftF(func(ctx context.Context, x int, out chan<- int) error { return nil }))
			vals, errs = append(vals, o), append(errs, e)
		case "Filter":
			vals = append(vals, pipe.Filter(ctx, in(), pipe.Pure(yes)))
		case "Partition":
			l, r := pipe.Partition(ctx, in(), pipe.Pure(yes))
			vals = append(vals, l, r)
		case "Fold":
			vals = append(vals, pipe.Fold(ctx, in(), monoid.FromOp(0, func(a, b int) int { return a + b })))
		case "ForEach":
			dones = append(dones, pipe.ForEach(ctx, in(), pipe.Pure(func(x int) int { return x })))
		case "Void":
			dones = append(dones, pipe.Void(ctx, in()))
		case "Take":
			vals = append(vals, api.Take(ctx, in(), 3))
		case "TakeWhile":
			vals = append(vals, api.TakeWhile(ctx, in(), yes))
		case "Join":
			vals = append(vals, api.Join(ctx, in(), in()))
		case "Throttling":
			vals = append(vals, api.Throttling(ctx, in(), 2, tick))
		case "Emit":
			o, e := api.Emit(ctx, c.Cap, tick, c.End, id)
			vals, errs = append(vals, o), append(errs, e)
		case "Unfold":
			o, e := api.Unfold(ctx, c.Cap, 1, c.End, id)
			vals, errs = append(vals, o), append(errs, e)
		case "Unfold+StdErr":
			vals = append(vals, api.StdErr(api.Unfold(ctx, c.Cap, 1, c.End, id)))
		case "New":
			r, s := pipe.New[int](ctx, c.Cap)
			_ = s
			vals = append(vals, r)
		case "fork.Map":
			o, e := fork.Map(ctx, 3, in(), fork.Lift(id))
			vals, errs = append(vals, o), append(errs, e)
		case "fork.Filter":
			vals = append(vals, fork.Filter(ctx, 3, in(), fork.Pure(yes)))
		case "fork.Fold":
			vals = append(vals, fork.Fold(ctx, 3, in(), monoid.FromOp(0, func(a, b int) int { return a + b })))
		case "fork.ForEach":
			dones = append(dones, fork.ForEach(ctx, 3, in(), fork.Pure(func(x int) int { return x })))
		}
		// nobody receives for a while: the goroutines have to go by themselves
		time.Sleep(50 * tick)
		synctest.Wait()
		if g := libCensus(); len(g) > 0 {
			return fmt.Sprintf("%s built under a context that was already done (%s): %d library goroutines are still there with nobody receiving, e.g.\n%s", c.Arg, c.Mode, len(g), g[0])
		}
		// then every returned channel reports closed (Fold may still hold its one value)
		closed := func(ok bool, what string) string {
			if ok {
				return fmt.Sprintf("%s built under a context that was already done (%s): the %s channel is not closed", c.Arg, c.Mode, what)
			}
			return ""
		}
		for _, ch := range vals {
			n := 0
			for range ch {
				n++
				if n > c.N+c.Cap+8 {
					return fmt.Sprintf("%s built under a done context keeps delivering values", c.Arg)
				}
			}
		}
		for _, ch := range errs {
			select {
			case _, ok := <-ch:
				if ok {
					_, ok = <-ch
				}
				if d := closed(ok, "error"); d != "" {
					return d
				}
			default:
				return closed(true, "error")
			}
		}
		for _, ch := range dones {
			select {
			case _, ok := <-ch:
				if d := closed(ok, "done"); d != "" {
					return d
				}
			default:
				return closed(true, "done")
			}
		}
		return ""
	}
}

func progsPreCancel(t *testing.T, prop string) {
	sites := map[string][]string{
		"C06": {"Map", "FMap", "Filter", "Partition", "Fold", "ForEach", "Void", "Take", "TakeWhile", "Join", "Throttling", "Emit", "Unfold", "Unfold+StdErr"},
		"C08": {"New"}, "C09": {"fork.Map", "fork.Filter", "fork.ForEach"}, "C11": {"Emit", "Unfold", "Unfold+StdErr"},
	}[prop]
	for _, st := range sites {
		for _, mode := range []string{"cancelled", "expired"} {
			for _, n := range []int{0, 5} {
				for _, cp := range []int{0, 1, 4} {
					for _, v := range []string{"", "fork"} {
						ends := []string{""}
						if st == "Emit" || st == "Unfold" || st == "Unfold+StdErr" {
							ends = []string{"pure", "try", "lift"}
						} else if cp > 0 && st != "New" {
							continue
						}
						for _, e := range ends {
							runProg(t, prop, &caseT{Stage: "prog/built-after-cancel", Arg: st, Mode: mode, N: n, Cap: cp, End: e, Comment: v})
						}
					}
				}
			}
		}
	}
}

// ---------------------------------------------------------------- Join: cancel with nobody receiving, copiers racing for the last slot

func init() {
	progs["join-cancel-no-receiver"] = func(c *caseT) string {
		k := c.N
		for round := 0; round < c.Delay; round++ {
			ctx, cancel := context.WithCancel(context.Background())
			ins := make([]chan int, k)
			ro := make([]<-chan int, k)
			for i := range ins {
				ins[i] = make(chan int, 1)
				ro[i] = ins[i]
			}
			out := api.Join(ctx, ro...)
			// fill the output up to c.Cap free slots through the first input, then let all others deliver at once
			free := c.Cap
			for i := 0; i < cap(out)-free; i++ {
				ins[0] <- i
			}
			synctest.Wait()
			var wg sync.WaitGroup
			start := make(chan struct{})
			for i := 1; i < k; i++ {
				wg.Add(1)
				go func(i int) {
					defer wg.Done()
					<-start
					ins[i] <- 1000 + i
				}(i)
			}
			close(start)
			wg.Wait()
			for i := range ins {
				close(ins[i])
			}
			cancel()
			synctest.Wait()
			if g := libCensus(); len(g) > 0 {
				return fmt.Sprintf("round %d: Join of %d inputs, inputs closed, context cancelled, nobody receiving: %d library goroutines stay, e.g.\n%s", round, k, len(g), g[0])
			}
			n := 0
			for range out {
				n++
			}
		}
		return ""
	}
}

func progsJoinCancel(t *testing.T, prop string) {
	for _, k := range []int{2, 3, 12} {
		for _, free := range []int{0, 1, 2} {
			for _, v := range []string{"", "fork"} {
				runProg(t, prop, &caseT{Stage: "prog/join-cancel-no-receiver", N: k, Cap: free, Delay: common.Pick(300, 3000), Comment: v})
			}
		}
	}
}

// ---------------------------------------------------------------- Emit under a deadline that falls inside a tick

func init() {
	progs["emit-deadline-inside-tick"] = func(c *caseT) string {
		tick := time.Duration(c.Tick)
		life := time.Duration(c.Delay) * tick / 4 // Delay = quarter ticks until the deadline
		ctx, cancel := context.WithTimeout(context.Background(), life)
		defer cancel()
		start := time.Now()
		var mu sync.Mutex
		var callAt []time.Duration
		out, exx := api.Emit(ctx, c.Cap, tick, c.Mode, func(i int) (int, error) {
			mu.Lock()
			callAt = append(callAt, time.Since(start))
			mu.Unlock()
			return i, nil
		})
		go func() {
			for range exx {
			}
		}()
		n, late := 0, 0
		for v := range out {
			if ctx.Err() != nil {
				// every value after the deadline is a coin the emitter lost (a ready send against a done context)
				if late++; late > postCancelBudget {
					return fmt.Sprintf("deadline after %v: Emit delivered %d more values to a consumer that keeps up after its context was done, it does not stop", life, late)
				}
			}
			if v != n {
				return fmt.Sprintf("value %d of Emit is %d", n, v)
			}
			if at := time.Since(start); at < time.Duration(n+1)*tick {
				return fmt.Sprintf("deadline after %v: value %d was available at %v, before %d ticks of %v had elapsed", life, n, at, n+1, tick)
			}
			n++
		}
		mu.Lock()
		defer mu.Unlock()
		for k, at := range callAt {
			if at < time.Duration(k+1)*tick {
				return fmt.Sprintf("deadline after %v: f(%d) was called at %v, before %d ticks of %v", life, k, at, k+1, tick)
			}
			if k > 0 && at-callAt[k-1] < tick {
				return fmt.Sprintf("deadline after %v: f(%d) was called %v after f(%d): two calls within one tick of %v", life, k, at-callAt[k-1], k-1, tick)
			}
		}
		return ""
	}
}

func progsEmitDeadline(t *testing.T, prop string) {
	for q := 1; q <= 18; q++ {
		for _, cp := range []int{0, 1, 4} {
			for _, mode := range []string{"pure", "try"} {
				for _, v := range []string{"", "fork"} {
					runProg(t, prop, &caseT{Stage: "prog/emit-deadline-inside-tick", Delay: q, Cap: cp, Mode: mode, Tick: int64(20 * time.Millisecond), Comment: v})
				}
			}
		}
	}
}

// ---------------------------------------------------------------- real clock: lower bounds only

// A virtual clock fires every timer exactly when it is due; code that measures its own lateness sees zero there.
// These two soaks run on the real clock, outside a bubble. Only bounds that a loaded machine cannot break are
// judged: a delivery is never EARLIER than the rate allows, and a window never holds MORE deliveries than the
// bound (a slow consumer or a late time stamp only moves deliveries later and can only use the tokens the
// statement already accounts for).
func realTimeThrottle(prop string, ops, total int, interval time.Duration, fk bool) {
	c := &caseT{Site: "Throttling/real-clock", Stage: "Throttling/real-clock", N: ops, Tick: int64(interval), Comment: fmt.Sprint("real clock, ", total, " elements, fork=", fk)}
	id := common.ID(fmt.Sprint("rt-throttle", ops, total, interval, fk))
	if common.Skip(id) {
		return
	}
	rec.Begin(id, c)
	defer rec.End(id)
	ctx, cancel := context.WithCancel(context.Background())
	defer cancel()
	in := make(chan int)
	go func() {
		defer close(in)
		for i := 0; i < total; i++ {
			select {
			case in <- i:
			case <-ctx.Done():
				return
			}
		}
	}()
	var out <-chan int
	start := time.Now()
	if fk {
		out = fork.Throttling(ctx, in, ops, interval)
	} else {
		out = pipe.Throttling(ctx, in, ops, interval)
	}
	// every delivery lies between two readings of the clock: bef (taken before the receive was attempted) and at
	// (taken after it returned). A consumer that is descheduled between the receive and the second reading stamps
	// an old delivery late; only the pair brackets the true instant.
	at := make([]time.Duration, 0, total)
	bef := make([]time.Duration, 0, total)
	ok := soakGuard("Throttling/real-clock", func() {
		for {
			b := time.Since(start)
			v, open := <-out
			if !open {
				return
			}
			if v != len(at) {
				rec.Violate(prop+"/Throttling/real-clock/order", fmt.Sprintf("element %d delivered at position %d", v, len(at)), c)
				return
			}
			bef = append(bef, b)
			at = append(at, time.Since(start))
		}
	})
	if !ok {
		return
	}
	lo := 0
	for i, ti := range at {
		if min := time.Duration(i/ops) * interval; ti < min {
			rec.Violate(prop+"/Throttling/real-clock/early", fmt.Sprintf("real clock, ops=%d interval=%v: element %d delivered at %v, earlier than floor(i/ops)*interval = %v (all %d took %v)", ops, interval, i, ti, min, len(at), at[len(at)-1]), c)
			break
		}
		// deliveries lo..i certainly all happened inside (ti-interval, ti]: each one after its bef reading, which is
		// later than ti-interval, and before its at reading, which is not later than ti
		for lo <= i && bef[lo] <= ti-interval { // (a receive that itself waited an interval or more leaves nothing certain)
			lo++
		}
		if n := i - lo + 1; n > 2*ops+1 {
			rec.Violate(prop+"/Throttling/real-clock/window", fmt.Sprintf("real clock, ops=%d interval=%v: %d deliveries certainly within one interval ending at %v (each received after %v), bound is %d", ops, interval, n, ti, bef[lo], 2*ops+1), c)
			break
		}
	}
	rec.Eval(fmt.Sprint("rt-throttle", ops, total, interval, fk), true)
	rec.Count("real_clock_deliveries", int64(len(at)))
}

func realTimeEmit(prop string, total int, tick time.Duration, fk bool) {
	c := &caseT{Site: "Emit/real-clock", Stage: "Emit/real-clock", N: total, Tick: int64(tick), Comment: fmt.Sprint("real clock, fork=", fk)}
	id := common.ID(fmt.Sprint("rt-emit", total, tick, fk))
	if common.Skip(id) {
		return
	}
	rec.Begin(id, c)
	defer rec.End(id)
	ctx, cancel := context.WithCancel(context.Background())
	defer cancel()
	start := time.Now()
	var mu sync.Mutex
	var callAt []time.Duration
	f := func(i int) (int, error) {
		mu.Lock()
		callAt = append(callAt, time.Since(start))
		mu.Unlock()
		return i, nil
	}
	var out <-chan int
	if fk {
		out, _ = fork.Emit(ctx, 1, tick, fork.Lift(f))
	} else {
		out, _ = pipe.Emit(ctx, 1, tick, pipe.Lift(f))
	}
	ok := soakGuard("Emit/real-clock", func() {
		for i := 0; i < total; i++ {
			if i == total/3 {
				time.Sleep(6 * tick) // the consumer falls behind once
			}
			v, open := <-out
			if !open || v != i {
				rec.Violate(prop+"/Emit/real-clock/values", fmt.Sprintf("value %d is %d (open=%v)", i, v, open), c)
				return
			}
			if at := time.Since(start); at < time.Duration(i+1)*tick {
				rec.Violate(prop+"/Emit/real-clock/early", fmt.Sprintf("real clock: value %d available at %v, before %d ticks of %v", i, at, i+1, tick), c)
				return
			}
		}
		cancel()
	})
	if !ok {
		return
	}
	mu.Lock()
	defer mu.Unlock()
	for k, at := range callAt {
		if at < time.Duration(k+1)*tick {
			rec.Violate(prop+"/Emit/real-clock/early", fmt.Sprintf("real clock: f(%d) called at %v, before %d ticks of %v", k, at, k+1, tick), c)
			break
		}
		if k > 0 && at-callAt[k-1] < tick {
			rec.Violate(prop+"/Emit/real-clock/pace", fmt.Sprintf("real clock: f(%d) called %v after f(%d), less than one tick of %v", k, at-callAt[k-1], k-1, tick), c)
			break
		}
	}
	rec.Eval(fmt.Sprint("rt-emit", total, tick, fk), true)
	rec.Count("real_clock_deliveries", int64(total))
}

var _ = slices.Sort[[]int]

// ---------------------------------------------------------------- Join of many inputs of bulky elements (thorough tier: ~300 MB of goroutine stacks)

type mib [65000]byte // (channel elements are limited to 64 KiB)

func init() {
	progs["join-quiet-feeds-bulky"] = func(c *caseT) string {
		ctx, cancel := context.WithCancel(context.Background())
		defer cancel()
		k := c.N
		ins := make([]chan mib, k)
		ro := make([]<-chan mib, k)
		for i := range ins {
			ins[i] = make(chan mib)
			ro[i] = ins[i]
		}
		var out <-chan mib
		if c.Comment == "fork" {
			out = fork.Join(ctx, ro...)
		} else {
			out = pipe.Join(ctx, ro...)
		}
		go func() {
			var x mib
			x[0], x[len(x)-1] = 42, 24
			ins[k-1] <- x
		}()
		synctest.Wait()
		select {
		case v := <-out:
			if v[0] != 42 || v[len(v)-1] != 24 {
				return "the element arrived damaged"
			}
		default:
			return fmt.Sprintf("the element sent on input %d of %d (all open, unbuffered, 64 KB elements) is not offered on the output at quiescence", k-1, k)
		}
		for i := range ins {
			close(ins[i])
		}
		if _, ok := <-out; ok {
			return "an element nobody sent"
		}
		return ""
	}
}

func progsJoinBulky(t *testing.T, prop string) {
	if !common.Thorough() {
		return
	}
	for _, k := range []int{8, 4200} {
		runProg(t, prop, &caseT{Stage: "prog/join-quiet-feeds-bulky", N: k})
	}
}

// ---------------------------------------------------------------- a callback that ends its goroutine (runtime.Goexit)

// t.Fatal, t.FailNow, t.Skip and the require.* helpers end the calling goroutine with runtime.Goexit; inside a stage
// callback that goroutine is the stage's (or a worker's). It is gone then - without a panic - so what the statement
// says about a stage whose goroutines have exited applies: every returned channel closes, nothing else stays behind,
// and in a fork stage the other workers finish the input.
func init() {
	progs["callback-goexit"] = func(c *caseT) string {
		ctx, cancel := context.WithCancel(context.Background())
		defer cancel()
		xs := seqInts(1, c.N)
		k := c.Delay // the element (or index) at which the callback leaves
		f := func(x int) (int, error) {
			if x == k {
				runtime.Goexit()
			}
			return x * 10, nil
		}
		pred := func(x int) bool {
			if x == k {
				runtime.Goexit()
			}
			return x%2 == 1
		}
		var vals []<-chan int
		var errs []<-chan error
		var dones []<-chan struct{}
		forked := false
		switch c.Arg {
		case "Map":
			o, e := pipe.Map(ctx, pipe.Seq(xs...), pipe.Lift(f))
			vals, errs = append(vals, o), append(errs, e)
		case "FMap":
			o, e := pipe.FMap(ctx, pipe.Seq(xs...), pipe.LiftF(func(ctx context.Context, x int, out chan<- int) error {
				v, _ := f(x)
				out <- v
				return nil
			}))
			vals, errs = append(vals, o), append(errs, e)
		case "Filter":
			vals = append(vals, pipe.Filter(ctx, pipe.Seq(xs...), pipe.Pure(pred)))
		case "TakeWhile":
			vals = append(vals, api.TakeWhile(ctx, pipe.Seq(xs...), func(x int) bool { pred(x); return true }))
		case "Partition":
			l, r := pipe.Partition(ctx, pipe.Seq(xs...), pipe.Pure(pred))
			vals = append(vals, l, r)
		case "ForEach":
			dones = append(dones, pipe.ForEach(ctx, pipe.Seq(xs...), pipe.Pure(func(x int) int { v, _ := f(x); return v })))
		case "Fold":
			vals = append(vals, pipe.Fold(ctx, pipe.Seq(xs...), monoid.FromOp(0, func(a, b int) int {
				if b == k {
					runtime.Goexit()
				}
				return a + b
			})))
		case "Emit":
			o, e := api.Emit(ctx, c.Cap, time.Millisecond, "lift", func(i int) (int, error) { return f(i + 1) })
			vals, errs = append(vals, o), append(errs, e)
		case "Unfold":
			o, e := api.Unfold(ctx, c.Cap, 1, "lift", func(x int) (int, error) { f(x); return x + 1, nil })
			vals, errs = append(vals, o), append(errs, e)
		case "fork.Map":
			forked = true
			o, e := fork.Map(ctx, c.Par, fork.Seq(xs...), fork.Lift(f))
			vals, errs = append(vals, o), append(errs, e)
		case "fork.Filter":
			forked = true
			vals = append(vals, fork.Filter(ctx, c.Par, fork.Seq(xs...), fork.Pure(pred)))
		case "fork.ForEach":
			forked = true
			dones = append(dones, fork.ForEach(ctx, c.Par, fork.Seq(xs...), fork.Pure(func(x int) int { v, _ := f(x); return v })))
		case "fork.Fold":
			forked = true
			vals = append(vals, fork.Fold(ctx, c.Par, fork.Seq(xs...), monoid.FromOp(0, func(a, b int) int {
				if b == k {
					runtime.Goexit()
				}
				return a + b
			})))
		}
		// consumers drain everything concurrently; every channel has to close
		var wg sync.WaitGroup
		got := make([][]int, len(vals))
		for i, ch := range vals {
			wg.Add(1)
			go func(i int, ch <-chan int) {
				defer wg.Done()
				for v := range ch {
					got[i] = append(got[i], v)
					if len(got[i]) > c.N+20 {
						if c.Arg != "Emit" && c.Arg != "Unfold" {
							return
						}
					}
				}
			}(i, ch)
		}
		for _, ch := range errs {
			wg.Add(1)
			go func(ch <-chan error) {
				defer wg.Done()
				for range ch {
				}
			}(ch)
		}
		for _, ch := range dones {
			wg.Add(1)
			go func(ch <-chan struct{}) {
				defer wg.Done()
				for range ch {
				}
			}(ch)
		}
		wg.Wait() // (a channel that never closes ends as the bubble's deadlock)
		synctest.Wait()
		if g := libCensus(); len(g) > 0 {
			return fmt.Sprintf("%s: the callback left its goroutine at element %d; %d library goroutines stay behind, e.g.\n%s", c.Arg, k, len(g), g[0])
		}
		if forked && c.Par > 1 && (c.Arg == "fork.Map" || c.Arg == "fork.Filter") {
			n := 0
			for _, g := range got {
				n += len(g)
			}
			want := 0
			for _, x := range xs {
				if x != k && (c.Arg == "fork.Map" || x%2 == 1) {
					want++
				}
			}
			if n != want {
				return fmt.Sprintf("%s (par %d): one worker left at element %d; %d results delivered, the other workers owe %d", c.Arg, c.Par, k, n, want)
			}
		}
		return ""
	}
}

func progsGoexit(t *testing.T, prop string) {
	stages := map[string][]string{
		"C06": {"Map", "FMap", "Filter", "TakeWhile", "Partition", "ForEach", "Fold", "Emit", "Unfold"},
		"C09": {"fork.Map", "fork.Filter", "fork.ForEach"},
		"C07": {"Map", "FMap", "Emit", "Unfold"},
	}[prop]
	for _, st := range stages {
		for _, n := range []int{1, 6} {
			for _, k := range []int{1, 3, n} {
				if k > n {
					continue
				}
				for _, par := range []int{1, 3} {
					if !strings.HasPrefix(st, "fork.") && par > 1 {
						continue
					}
					for _, v := range []string{"", "fork"} {
						if v == "fork" && st != "Emit" && st != "Unfold" && st != "TakeWhile" {
							continue
						}
						runProg(t, prop, &caseT{Stage: "prog/callback-goexit", Arg: st, N: n, Delay: k, Par: par, Cap: 1, Comment: v})
					}
				}
			}
		}
	}
}

// ---------------------------------------------------------------- degenerate parameters

func init() {
	// parameters at and below zero where the unchanged library has a plain meaning: an interval or frequency of zero (or
	// less) is no pause at all, Take(n <= 0) takes nothing. The values are still exactly the input, in order, and
	// everything closes; no library goroutine may panic on them.
	progs["degenerate-parameters"] = func(c *caseT) string {
		ctx, cancel := context.WithCancel(context.Background())
		defer cancel()
		xs := seqInts(1, c.N)
		d := time.Duration(c.Tick)
		switch c.Arg {
		case "Throttling":
			got := api.ToSeq(api.Throttling(ctx, api.Seq(xs...), max(c.Par, 1), d))
			if !slices.Equal(got, xs) && !(len(got) == 0 && len(xs) == 0) {
				return fmt.Sprintf("Throttling with interval %v: %s", d, diffAt(got, xs))
			}
		case "Emit":
			out, exx := api.Emit(ctx, c.Cap, d, "pure", func(i int) (int, error) { return i, nil })
			go func() {
				for range exx {
				}
			}()
			for i := 0; i < c.N; i++ {
				if v, ok := <-out; !ok || v != i {
					return fmt.Sprintf("Emit with frequency %v: value %d is %d (open=%v)", d, i, v, ok)
				}
			}
			cancel()
			late := 0
			for range out {
				if late++; late > postCancelBudget {
					return fmt.Sprintf("Emit with frequency %v delivered %d more values after cancel to a consumer that keeps up, it does not stop", d, late)
				}
			}
		case "Take":
			got := api.ToSeq(api.Take(ctx, api.Seq(xs...), c.Par))
			if len(got) != 0 {
				return fmt.Sprintf("Take(%d) delivered %v", c.Par, got)
			}
		}
		return ""
	}
}

func progsDegenerate(t *testing.T, prop string) {
	for _, v := range []string{"", "fork"} {
		for _, d := range []time.Duration{0, -time.Millisecond, -1, 1} {
			for _, n := range []int{0, 1, 5, 40} {
				for _, ops := range []int{1, 3} {
					runProg(t, prop, &caseT{Stage: "prog/degenerate-parameters", Arg: "Throttling", N: n, Par: ops, Tick: int64(d), Comment: v})
				}
				runProg(t, prop, &caseT{Stage: "prog/degenerate-parameters", Arg: "Emit", N: n, Cap: n % 3, Tick: int64(d), Comment: v})
			}
		}
		for _, n := range []int{0, -1, -1 << 62} {
			runProg(t, prop, &caseT{Stage: "prog/degenerate-parameters", Arg: "Take", N: 5, Par: n, Comment: v})
		}
	}
}

// ---------------------------------------------------------------- fork workers racing for the last output slot

func init() {
	progs["fork-cancel-no-receiver"] = func(c *caseT) string {
		par := c.Par
		for round := 0; round < c.Delay; round++ {
			ctx, cancel := context.WithCancel(context.Background())
			in := make(chan int)
			gate := make(chan struct{})
			var waiting sync.WaitGroup
			hold := false
			f := func(x int) int {
				if hold {
					waiting.Done()
					<-gate // all workers leave their call at the same moment
				}
				return x
			}
			var out <-chan int
			var exx <-chan error
			switch c.Arg {
			case "fork.Filter":
				out = fork.Filter(ctx, par, in, fork.Pure(func(x int) bool { f(x); return true }))
			default:
				out, exx = fork.Map(ctx, par, in, fork.Pure(f))
			}
			// fill the output up to c.Cap free slots
			for i := 0; i < cap(out)-c.Cap; i++ {
				in <- i
			}
			synctest.Wait()
			hold = true
			waiting.Add(par)
			for i := 0; i < par; i++ {
				in <- 1000 + i
			}
			waiting.Wait()
			close(gate)
			close(in)
			cancel()
			synctest.Wait()
			if g := libCensus(); len(g) > 0 {
				return fmt.Sprintf("round %d: %s with %d workers, %d free output slots, all workers deliver at once, input closed, context cancelled, nobody receiving: %d library goroutines stay, e.g.\n%s", round, c.Arg, par, c.Cap, len(g), g[0])
			}
			for range out {
			}
			if exx != nil {
				for range exx {
				}
			}
		}
		return ""
	}
}

func progsForkCancel(t *testing.T, prop string) {
	for _, st := range []string{"fork.Map", "fork.Filter"} {
		for _, par := range []int{2, 3, 8} {
			for _, free := range []int{0, 1, 2} {
				runProg(t, prop, &caseT{Stage: "prog/fork-cancel-no-receiver", Arg: st, Par: par, Cap: free, Delay: common.Pick(150, 2000)})
			}
		}
	}
}

// ---------------------------------------------------------------- Join: an input that is over before the others are attached

// joinEarlyClose (real time, no clock in the verdict): Join of an input that is already closed and empty with one that
// stays open. The output must not report closed while the second input is open - whichever goroutine of the stage
// happens to run first. The window is a few hundred nanoseconds of real parallelism, hence many rounds.
func joinEarlyClose(prop string, rounds int, fk bool) {
	c := &caseT{Site: "Join/early-close", Stage: "Join/early-close", N: rounds, Comment: fmt.Sprint("real scheduling, fork=", fk)}
	id := common.ID(fmt.Sprint("join-early-close", rounds, fk))
	if common.Skip(id) {
		return
	}
	rec.Begin(id, c)
	defer rec.End(id)
	join := pipe.Join[int]
	if fk {
		join = fork.Join[int]
	}
	bad := ""
	soakGuard("Join/early-close", func() {
		for r := 0; r < rounds && bad == ""; r++ {
			ctx, cancel := context.WithCancel(context.Background())
			done := make(chan int)
			close(done)
			done2 := make(chan int, 1)
			close(done2)
			open := make(chan int)
			var out <-chan int
			if r%2 == 0 {
				out = join(ctx, done, open)
			} else {
				out = join(ctx, done, done2, open)
			}
			if p := common.Catch(func() {
				select {
				case v, ok := <-out:
					bad = fmt.Sprintf("round %d: the output yields (%d, open=%v) while an input is still open and nothing was sent", r, v, ok)
				default:
				}
				open <- 7
				if v, ok := <-out; !ok || v != 7 {
					bad = fmt.Sprintf("round %d: sent 7 on the open input, the output yields (%d, open=%v)", r, v, ok)
				}
			}); p != nil {
				bad = fmt.Sprintf("round %d: panic %v", r, p)
			}
			close(open)
			for range out {
			}
			cancel()
		}
	})
	if bad != "" {
		rec.Violate(prop+"/Join/early-close", bad, c)
	}
	rec.Eval(fmt.Sprint("join-early-close", rounds, fk), true)
	rec.Count("early_close_rounds", int64(rounds))
}

package envsched

import (
	"context"
	"fmt"
	"slices"
	"sync"
	"testing"
	"time"

	"sync/atomic"

	"verif/harness/common"

	"github.com/fogfish/golem/pipe/v2"
	"github.com/fogfish/golem/pipe/v2/fork"
	"github.com/fogfish/golem/pure/monoid"
)

// ---------------------------------------------------------------- C07 / C09: a reader of the error channel that takes its time

func init() {
	// try-and-continue with the two channels read at very different paces. The error channel is read (the
	// statement's proviso), only slowly - the reader writes each error somewhere before taking the next one. However
	// long the stage waits for that reader, every failing element yields exactly one error and every other element
	// its output. Virtual time: the pauses go from a millisecond to an hour.
	progs["try-slow-error-reader"] = func(c *caseT) string {
		ctx, cancel := context.WithCancel(context.Background())
		defer cancel()
		pe, pv := time.Duration(c.Delay)*time.Millisecond, time.Duration(c.Tick)
		xs := seqInts(1, c.N)
		bad := func(x int) bool {
			switch c.Arg {
			case "all":
				return true
			case "runs":
				return (x/5)%2 == 0
			}
			return mix(x, c.FSeed)%3 == 0
		}
		f := func(x int) (int, error) {
			if bad(x) {
				return 0, idErr(x)
			}
			return x * 2, nil
		}
		arrow := func(ctx context.Context, x int, out chan<- int) error {
			if bad(x) {
				return idErr(x)
			}
			select {
			case out <- x * 2:
			case <-ctx.Done():
			}
			return nil
		}
		in := make(chan int, c.Cap)
		if c.Mode != "Emit" {
			go func() {
				defer close(in)
				for _, x := range xs {
					in <- x
				}
			}()
		}
		var out <-chan int
		var exx <-chan error
		switch c.Mode {
		case "Map":
			out, exx = pipe.Map(ctx, in, pipe.Try(f))
		case "FMap":
			out, exx = pipe.FMap(ctx, in, pipe.TryF(arrow))
		case "fork.Map":
			out, exx = fork.Map(ctx, max(c.Par, 1), in, fork.Try(f))
		case "fork.FMap":
			out, exx = fork.FMap(ctx, max(c.Par, 1), in, fork.TryF(arrow))
		case "Emit":
			out, exx = api.Emit(ctx, c.Cap, time.Millisecond, "try", func(i int) (int, error) {
				if i >= c.N {
					return 0, idErr(-1 - i) // past the end of the experiment: not judged
				}
				return f(i + 1)
			})
		}
		var got, errs []int
		lateErrs := 0
		done := make(chan struct{})
		stderr := c.End == "stderr"
		if stderr {
			// the library's own reader of error channels takes the errors (and logs them)
			out = api.StdErr(out, exx)
			exx = nil
		}
		go func() {
			defer close(done)
			if exx == nil {
				return
			}
			for e := range exx {
				if id := toInt(e); id >= 0 {
					errs = append(errs, id)
				}
				if ctx.Err() != nil {
					// after cancel each further error is a coin the stage lost (ready reader against done context)
					if lateErrs++; lateErrs > postCancelBudget {
						return
					}
				}
				time.Sleep(pe)
			}
		}()
		var wg, we []int
		for _, x := range xs {
			if bad(x) {
				we = append(we, x)
			} else {
				wg = append(wg, x)
			}
		}
		if c.Mode == "Emit" {
			// Emit has no end of input: take the values the experiment expects, give the (sequential) emitter time to
			// hand over the errors of the trailing indices, then cancel
			for range wg {
				v, ok := <-out
				if !ok {
					break
				}
				got = append(got, v/2)
				time.Sleep(pv)
			}
			time.Sleep(time.Duration(c.N+2)*(pe+time.Millisecond) + time.Second)
			cancel()
			late := 0
			for range out {
				if late++; late > postCancelBudget {
					return "Emit keeps delivering after cancel"
				}
			}
		} else {
			for v := range out {
				got = append(got, v/2)
				time.Sleep(pv)
			}
		}
		<-done
		if lateErrs > postCancelBudget {
			return fmt.Sprintf("%s under Try handed %d more errors to a reader that keeps up after cancel, it does not stop", c.Mode, lateErrs)
		}
		if c.Par > 1 {
			slices.Sort(got)
			slices.Sort(errs)
		}
		what := fmt.Sprintf("%s under Try, error reader pausing %v, value reader pausing %v", c.Mode, pe, pv)
		if !slices.Equal(got, wg) {
			return what + ": values " + diffAt(got, wg)
		}
		if !stderr && !slices.Equal(errs, we) {
			return what + ": errors (one per failing element) " + diffAt(errs, we)
		}
		return ""
	}

	// an arrow may keep what it bound to the context it was given: a helper stage started by its first call, a resource
	// released by context.AfterFunc. The pipeline's context is not cancelled, so all of that keeps working from one
	// element to the next and the stage delivers the concatenation of the images.
	progs["fmap-arrow-keeps-context"] = func(c *caseT) string {
		ctx, cancel := context.WithCancel(context.Background())
		defer cancel()
		xs := seqInts(1, c.N)
		var released atomic.Bool
		var helperIn chan int
		var helperOut <-chan int
		first := true
		arrow := func(actx context.Context, x int, out chan<- int) error {
			if first {
				first = false
				context.AfterFunc(actx, func() { released.Store(true) })
				if c.Mode == "helper-stage" {
					helperIn = make(chan int)
					helperOut, _ = pipe.Map(actx, helperIn, pipe.Pure(func(v int) int { return v * v }))
				}
			}
			y := x * x
			if released.Load() {
				y = -1 // the resource bound to the first call's context was released
			}
			if helperIn != nil {
				select {
				case helperIn <- x:
				case <-ctx.Done():
					return nil
				}
				v, ok := <-helperOut
				if !ok {
					v = -2 // the helper stage has shut down
				}
				if y >= 0 {
					y = v
				}
			}
			select {
			case out <- y:
			case <-actx.Done():
			}
			return nil
		}
		in := make(chan int, c.Cap)
		go func() {
			defer close(in)
			for _, x := range xs {
				in <- x
			}
		}()
		var out <-chan int
		var exx <-chan error
		switch c.Arg {
		case "TryF":
			out, exx = pipe.FMap(ctx, in, pipe.TryF(arrow))
		case "fork.LiftF":
			out, exx = fork.FMap(ctx, 1, in, fork.LiftF(arrow))
		default:
			out, exx = pipe.FMap(ctx, in, pipe.LiftF(arrow))
		}
		go func() {
			for range exx {
			}
		}()
		var got, want []int
		for v := range out {
			got = append(got, v)
		}
		if helperIn != nil {
			close(helperIn) // the helper stage ends with its input
		}
		for _, x := range xs {
			want = append(want, x*x)
		}
		if !slices.Equal(got, want) {
			return fmt.Sprintf("FMap (%s, %s), the arrow keeps using what it bound to the context of its first call (-1: released by AfterFunc, -2: helper stage shut down) while the pipeline's context is live: %s", c.Arg, c.Mode, diffAt(got, want))
		}
		return ""
	}
}

func progsArrowContext(t *testing.T, prop string, kinds []string) {
	for _, k := range kinds {
		for _, m := range []string{"after-func", "helper-stage"} {
			for _, n := range []int{1, 2, 3, 40} {
				for _, cp := range []int{0, 2} {
					runProg(t, prop, &caseT{Stage: "prog/fmap-arrow-keeps-context", N: n, Cap: cp, Arg: k, Mode: m})
				}
			}
		}
	}
}

func progsSlowErrors(t *testing.T, prop string, modes []string) {
	pauses := []time.Duration{0, time.Millisecond, 150 * time.Millisecond, 10 * time.Second, time.Hour}
	for _, m := range modes {
		par := 0
		if m == "fork.Map" || m == "fork.FMap" {
			par = 3
		}
		for _, pe := range pauses {
			for _, pv := range []time.Duration{0, time.Second} {
				for _, cp := range []int{0, 1, 3} {
					for _, pat := range []string{"", "all", "runs"} {
						if pat == "all" && m == "Emit" {
							continue
						}
						runProg(t, prop, &caseT{Stage: "prog/try-slow-error-reader", Mode: m, N: 14, Cap: cp, Par: par, Arg: pat, FSeed: uint64(cp) + 3, Tick: int64(pv), Delay: int(pe / time.Millisecond)})
						if pe == 0 {
							runProg(t, prop, &caseT{Stage: "prog/try-slow-error-reader", Mode: m, N: 14, Cap: cp, Par: par, Arg: pat, FSeed: uint64(cp) + 3, Tick: int64(pv), End: "stderr", Comment: map[bool]string{true: "fork"}[par > 0]})
						}
					}
				}
			}
		}
	}
}

// ---------------------------------------------------------------- C05: request and response

func init() {
	// the producer sends the next element only after the consumer has received what the stage makes of the previous
	// one (a request/response exchange, a batch whose results are awaited before the input is closed). A sequential
	// stage has no reason to sit on a result: whatever it owes for the elements it has consumed is delivered to a
	// waiting consumer without any further input event.
	progs["ping-pong"] = func(c *caseT) string {
		ctx, cancel := context.WithCancel(context.Background())
		defer cancel()
		xs := seqInts(1, c.N)
		keep := func(x int) bool { return mix(x, c.FSeed)%3 != 0 }
		in := make(chan int, c.Cap)
		var outs []<-chan int
		owed := func(x int) []int { return []int{x} } // what the stage delivers for x, in order (all outputs merged)
		route := func(x int) int { return 0 }         // on which output
		switch c.Mode {
		case "Map":
			o, e := pipe.Map(ctx, in, pipe.Pure(func(x int) int { return x * 3 }))
			go func() {
				for range e {
				}
			}()
			outs = append(outs, o)
			owed = func(x int) []int { return []int{x * 3} }
		case "FMap":
			o, e := pipe.FMap(ctx, in, pipe.LiftF(func(ctx context.Context, x int, out chan<- int) error {
				for j := 0; j < x%3; j++ {
					select {
					case out <- x*10 + j:
					case <-ctx.Done():
					}
				}
				return nil
			}))
			go func() {
				for range e {
				}
			}()
			outs = append(outs, o)
			owed = func(x int) []int {
				var r []int
				for j := 0; j < x%3; j++ {
					r = append(r, x*10+j)
				}
				return r
			}
		case "Filter":
			outs = append(outs, pipe.Filter(ctx, in, pipe.Pure(keep)))
			owed = func(x int) []int {
				if keep(x) {
					return []int{x}
				}
				return nil
			}
		case "TakeWhile":
			outs = append(outs, pipe.TakeWhile(ctx, in, pipe.Pure(func(x int) bool { return true })))
		case "Take":
			outs = append(outs, pipe.Take(ctx, in, c.N+1))
		case "Partition":
			l, r := pipe.Partition(ctx, in, pipe.Pure(keep))
			outs = append(outs, l, r)
			route = func(x int) int {
				if keep(x) {
					return 0
				}
				return 1
			}
		case "fork.Map":
			o, e := fork.Map(ctx, 3, in, fork.Pure(func(x int) int { return x * 3 }))
			go func() {
				for range e {
				}
			}()
			outs = append(outs, o)
			owed = func(x int) []int { return []int{x * 3} }
		case "fork.Filter":
			outs = append(outs, fork.Filter(ctx, 3, in, fork.Pure(keep)))
			owed = func(x int) []int {
				if keep(x) {
					return []int{x}
				}
				return nil
			}
		}
		for _, x := range xs {
			in <- x
			for _, w := range owed(x) {
				v, ok := <-outs[route(x)] // a stage that holds the result back leaves everybody waiting: the bubble's deadlock
				if !ok || v != w {
					return fmt.Sprintf("%s, request/response: for element %d the stage delivered %d (open=%v), the list function gives %d", c.Mode, x, v, ok, w)
				}
			}
		}
		close(in)
		for i, o := range outs {
			if v, ok := <-o; ok {
				return fmt.Sprintf("%s, request/response: output %d delivered %d after the last response", c.Mode, i, v)
			}
		}
		return ""
	}
}

func progsPingPong(t *testing.T, prop string, modes []string) {
	for _, m := range modes {
		for _, n := range []int{1, 2, 9, 40} {
			for _, cp := range []int{0, 1, 5} {
				runProg(t, prop, &caseT{Stage: "prog/ping-pong", Mode: m, N: n, Cap: cp, FSeed: uint64(n + cp)})
			}
		}
	}
}

// ---------------------------------------------------------------- C12: very many inputs, inputs of enormous capacity

func init() {
	// "for any number of inputs": far more inputs than any fixed-size select or descriptor table holds. All inputs are
	// closed already, a few of them carry one element.
	progs["join-very-many-inputs"] = func(c *caseT) string {
		ctx, cancel := context.WithCancel(context.Background())
		defer cancel()
		ins := make([]<-chan int, c.N)
		want := 0
		for i := range ins {
			ch := make(chan int, 1)
			if i%997 == 3 {
				ch <- i + 1
				want++
			}
			close(ch)
			ins[i] = ch
		}
		out := api.Join(ctx, ins...)
		seen := map[int]bool{}
		for v := range out {
			if v < 1 || v > c.N || (v-1)%997 != 3 || seen[v] {
				return fmt.Sprintf("Join of %d inputs delivered %d, which no input held (or twice)", c.N, v)
			}
			seen[v] = true
		}
		if len(seen) != want {
			return fmt.Sprintf("Join of %d closed inputs delivered %d of the %d elements they held", c.N, len(seen), want)
		}
		return ""
	}
	// channels of a zero-size element type may have any capacity (their buffer needs no memory)
	progs["join-zero-size-huge-capacity"] = func(c *caseT) string {
		ctx, cancel := context.WithCancel(context.Background())
		defer cancel()
		caps := []int{8, 1<<31 - 1, 1<<62 + 1, 1<<63 - 1}
		k := caps[c.N%len(caps)]
		a, b := make(chan struct{}, k), make(chan struct{}, k)
		for i := 0; i < 5; i++ {
			a <- struct{}{}
		}
		close(a)
		var out <-chan struct{}
		if c.Comment == "fork" {
			out = fork.Join[struct{}](ctx, a, b)
		} else {
			out = pipe.Join[struct{}](ctx, a, b)
		}
		n := 0
		for i := 0; i < 5; i++ {
			if _, ok := <-out; !ok {
				return fmt.Sprintf("Join of two struct{} inputs of capacity %d closed after %d of 5 elements while one input is open", k, n)
			}
			n++
		}
		b <- struct{}{}
		if _, ok := <-out; !ok {
			return fmt.Sprintf("Join of two struct{} inputs of capacity %d closed while one input is open", k)
		}
		close(b)
		if _, ok := <-out; ok {
			return "an element nobody sent"
		}
		return ""
	}
}

func progsJoinExtremes(t *testing.T, prop string) {
	for _, v := range []string{"", "fork"} {
		for _, n := range []int{65535, 65536, 65537, 70001} {
			runProg(t, prop, &caseT{Stage: "prog/join-very-many-inputs", N: n, Comment: v})
		}
		for i := 0; i < 4; i++ {
			runProg(t, prop, &caseT{Stage: "prog/join-zero-size-huge-capacity", N: i, Comment: v})
		}
	}
}

// ---------------------------------------------------------------- extreme arguments (C05), StdErr inside a chain (C07)

func init() {
	// Take with counts far beyond any input: everything is delivered
	progs["take-huge-count"] = func(c *caseT) string {
		ctx, cancel := context.WithCancel(context.Background())
		defer cancel()
		counts := []int{1<<31 + 2, 1<<32 + 3, 1<<33 + 1, 1<<62 + 5, 1<<63 - 1}
		n := counts[c.Par%len(counts)]
		xs := seqInts(1, c.N)
		got := api.ToSeq(api.Take(ctx, api.Seq(xs...), n))
		if !slices.Equal(got, xs) && !(len(got) == 0 && len(xs) == 0) {
			return fmt.Sprintf("Take(%d) over %d elements: %s", n, len(xs), diffAt(got, xs))
		}
		return ""
	}
	// stages over channels of a zero-size element type of enormous capacity (no memory is needed for their buffers)
	progs["zero-size-huge-capacity"] = func(c *caseT) string {
		ctx, cancel := context.WithCancel(context.Background())
		defer cancel()
		caps := []int{1 << 20, 1 << 44, 1 << 50, 1<<62 + 1}
		k := caps[c.Par%len(caps)]
		in := make(chan struct{}, k)
		for i := 0; i < c.N; i++ {
			in <- struct{}{}
		}
		close(in)
		id := func(struct{}) struct{} { return struct{}{} }
		var out <-chan struct{}
		var exx <-chan error
		switch c.Mode {
		case "Map":
			out, exx = pipe.Map(ctx, in, pipe.Pure(id))
		case "Map/Lift":
			out, exx = pipe.Map(ctx, in, pipe.Lift(func(struct{}) (struct{}, error) { return struct{}{}, nil }))
		case "FMap":
			out, exx = pipe.FMap(ctx, in, pipe.LiftF(func(ctx context.Context, _ struct{}, o chan<- struct{}) error {
				o <- struct{}{}
				return nil
			}))
		case "Filter":
			out = pipe.Filter(ctx, in, pipe.Pure(func(struct{}) bool { return true }))
		case "TakeWhile":
			out = pipe.TakeWhile(ctx, in, pipe.Pure(func(struct{}) bool { return true }))
		case "Take":
			out = pipe.Take(ctx, in, c.N+1)
		}
		if exx != nil {
			go func() {
				for range exx {
				}
			}()
		}
		n := 0
		for range out {
			n++
		}
		if n != c.N {
			return fmt.Sprintf("%s over a struct{} channel of capacity %d holding %d elements delivered %d", c.Mode, k, c.N, n)
		}
		return ""
	}
	// the library's error reader between two stages: the stream it hands on has the capacity of the stream it was given,
	// so a reader may still take the values of the following stage first and its errors afterwards
	progs["stderr-inside-a-chain"] = func(c *caseT) string {
		ctx, cancel := context.WithCancel(context.Background())
		defer cancel()
		xs := seqInts(1, c.N)
		bad1 := func(x int) bool { return x%5 == 2 }
		bad2 := func(x int) bool { return x%3 == 1 }
		a, ea := pipe.Map(ctx, pipe.Seq(xs...), pipe.Try(func(x int) (int, error) {
			if bad1(x) {
				return 0, idErr(x)
			}
			return x, nil
		}))
		mid := api.StdErr(a, ea)
		if cap(mid) != cap(a) {
			return fmt.Sprintf("StdErr handed on a stream of capacity %d, it was given one of capacity %d", cap(mid), cap(a))
		}
		b, eb := pipe.Map(ctx, mid, pipe.Try(func(x int) (int, error) {
			if bad2(x) {
				return 0, idErr(x)
			}
			return x * 2, nil
		}))
		var got, errs, wg, we []int
		first, second := func() {
			for v := range b {
				got = append(got, v/2)
			}
		}, func() {
			for e := range eb {
				errs = append(errs, toInt(e))
			}
		}
		if c.Mode == "errors-first" {
			first, second = second, first
		}
		first()
		second()
		for _, x := range xs {
			switch {
			case bad1(x):
			case bad2(x):
				we = append(we, x)
			default:
				wg = append(wg, x)
			}
		}
		if !slices.Equal(got, wg) {
			return "Map, StdErr, Map (" + c.Mode + "): values " + diffAt(got, wg)
		}
		if !slices.Equal(errs, we) {
			return "Map, StdErr, Map (" + c.Mode + "): errors of the second stage " + diffAt(errs, we)
		}
		return ""
	}
}

func progsExtremeArgs(t *testing.T, prop string) {
	for _, v := range []string{"", "fork"} {
		for i := 0; i < 5; i++ {
			for _, n := range []int{0, 1, 7} {
				runProg(t, prop, &caseT{Stage: "prog/take-huge-count", N: n, Par: i, Comment: v})
			}
		}
	}
	for _, m := range []string{"Map", "Map/Lift", "FMap", "Filter", "TakeWhile", "Take"} {
		for i := 0; i < 4; i++ {
			runProg(t, prop, &caseT{Stage: "prog/zero-size-huge-capacity", Mode: m, N: 5, Par: i})
		}
	}
}

func progsStdErrChain(t *testing.T, prop string) {
	for _, v := range []string{"", "fork"} {
		for _, m := range []string{"values-first", "errors-first"} {
			for _, n := range []int{0, 1, 4, 20, 300} {
				runProg(t, prop, &caseT{Stage: "prog/stderr-inside-a-chain", Mode: m, N: n, Comment: v})
			}
		}
	}
}

// ---------------------------------------------------------------- C10: Combine calls that wait for each other

func init() {
	// every distribution of elements over the workers is possible, also the one in which each of the par workers
	// holds one element at the same time: a Combine that waits until par of them are under way is then released
	progs["fold-workers-meet"] = func(c *caseT) string {
		ctx, cancel := context.WithCancel(context.Background())
		defer cancel()
		par := c.Par
		var mu sync.Mutex
		met, calls := make(chan struct{}), 0
		sum := monoid.FromOp(0, func(a, b int) int {
			mu.Lock()
			calls++
			k := calls
			if k == par {
				close(met)
			}
			mu.Unlock()
			if k <= par {
				<-met // the first par combinations meet
			}
			return a + b
		})
		in := make(chan int)
		go func() {
			defer close(in)
			for i := 1; i <= c.N; i++ {
				in <- i
			}
		}()
		got := fork.ToSeq(fork.Fold(ctx, par, in, sum))
		if want := c.N * (c.N + 1) / 2; len(got) != 1 || got[0] != want {
			return fmt.Sprintf("fork.Fold(par=%d) over 1..%d gave %v, want %d", par, c.N, got, want)
		}
		return ""
	}
	// one worker is held up inside its first Combine until all the other elements have been folded - by the other workers
	progs["fold-one-worker-held"] = func(c *caseT) string {
		ctx, cancel := context.WithCancel(context.Background())
		defer cancel()
		var mu sync.Mutex
		calls, rest := 0, make(chan struct{})
		prod := monoid.FromOp(1, func(a, b int) int {
			mu.Lock()
			calls++
			k := calls
			if k == c.N {
				close(rest)
			}
			mu.Unlock()
			if k == 1 {
				<-rest // returns only when every other element has been combined
			}
			return a * b
		})
		in := make(chan int, c.Cap)
		go func() {
			defer close(in)
			for i := 0; i < c.N; i++ {
				in <- 1 + i%3
			}
		}()
		want := 1
		for i := 0; i < c.N; i++ {
			want *= 1 + i%3
		}
		got := fork.ToSeq(fork.Fold(ctx, c.Par, in, prod))
		if len(got) != 1 || got[0] != want {
			return fmt.Sprintf("fork.Fold(par=%d) over %d elements gave %v, want %d", c.Par, c.N, got, want)
		}
		return ""
	}
}

func progsFoldMeet(t *testing.T, prop string) {
	for _, par := range []int{2, 3, 6, 17, 40, 130} {
		for _, n := range []int{par, par + 1, 3 * par} {
			runProg(t, prop, &caseT{Stage: "prog/fold-workers-meet", Par: par, N: n})
		}
	}
	for _, par := range []int{2, 3, 8} {
		for _, n := range []int{12, 40} {
			for _, cp := range []int{0, 1} {
				runProg(t, prop, &caseT{Stage: "prog/fold-one-worker-held", Par: par, N: n, Cap: cp})
			}
		}
	}
}

// ---------------------------------------------------------------- C13: rates at the edge of the domain (real clock)

// ops of 2^40 and MaxInt per interval: the bucket (a channel of struct{}) needs no memory, the call returns at once
// and every element is due immediately. Real clock, outside a bubble (the pacer of such a stage never sleeps, a
// virtual clock could not advance next to it). A call that does not come back is reported by the soak guard as
// inconclusive - a wall-clock watchdog is never a verdict - so such a tree cannot read as "held" either.
func realTimeHugeOps(prop string, ops int, fk bool) {
	c := &caseT{Site: "Throttling/huge-ops", Stage: "Throttling/huge-ops", N: ops, Tick: int64(time.Hour), Comment: fmt.Sprint("real clock, fork=", fk)}
	id := common.ID(fmt.Sprint("rt-huge-ops", ops, fk))
	if common.Skip(id) {
		return
	}
	rec.Begin(id, c)
	defer rec.End(id)
	ctx, cancel := context.WithCancel(context.Background())
	defer cancel()
	in := make(chan int, 4)
	var got []int
	ok := soakGuard("Throttling/huge-ops", func() {
		var out <-chan int
		if fk {
			out = fork.Throttling(ctx, in, ops, time.Hour)
		} else {
			out = pipe.Throttling(ctx, in, ops, time.Hour)
		}
		go func() {
			defer close(in)
			for i := 0; i < 50; i++ {
				select {
				case in <- i:
				case <-ctx.Done():
					return
				}
			}
		}()
		for v := range out {
			got = append(got, v)
		}
	})
	cancel()
	if !ok {
		return
	}
	if !slices.Equal(got, seqInts(0, 50)) {
		rec.Violate(prop+"/Throttling/huge-ops/result", fmt.Sprintf("ops=%d per hour: %s", ops, diffAt(got, seqInts(0, 50))), c)
	}
	rec.Eval(fmt.Sprint("rt-huge-ops", ops, fk), true)
}

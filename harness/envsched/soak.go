package envsched

import (
	"context"
	"fmt"
	"sync"
	"time"

	"verif/harness/common"

	"github.com/fogfish/golem/pipe/v2"
	"github.com/fogfish/golem/pipe/v2/fork"
	"github.com/fogfish/golem/pure/monoid"
)

// real-time soaks (no bubble): true parallel timing under the race detector; only conservation,
// order and race verdicts are taken from them. A hang would surface through the wall-clock watchdog
// as inconclusive — termination is decided in bubbles.

func soakGuard(name string, f func()) bool {
	done := make(chan struct{})
	go func() { defer close(done); f() }()
	select {
	case <-done:
		return true
	case <-time.After(180 * time.Second):
		rec.Inconclusive(name + ": real-time soak did not finish within the wall-clock watchdog (inconclusive, not a verdict)")
		return false
	}
}

func soakFork(total int) {
	c := &caseT{Site: "fork.Map/soak", Stage: "fork.Map/soak", N: total, Par: 8, Comment: "real-time soak"}
	id := common.ID(fmt.Sprint("soakfork", total))
	if common.Skip(id) {
		return
	}
	rec.Begin(id, c)
	defer rec.End(id)
	ctx, cancel := context.WithCancel(context.Background())
	defer cancel()
	var mu sync.Mutex
	calls := make(map[int]int, total)
	in := make(chan int, 4)
	out, exx := fork.Map(ctx, 8, in, fork.Try(func(x int) (int, error) {
		mu.Lock()
		calls[x]++
		mu.Unlock()
		if x%7 == 0 {
			return 0, idErr(x)
		}
		return x * 2, nil
	}))
	got := make(map[int]int, total)
	errs := make(map[int]int)
	ok := soakGuard("fork.Map", func() {
		var wg sync.WaitGroup
		wg.Add(2)
		go func() {
			defer wg.Done()
			for v := range out {
				got[v]++
			}
		}()
		go func() {
			defer wg.Done()
			for e := range exx {
				errs[int(e.(idErr))]++
			}
		}()
		for i := 1; i <= total; i++ {
			in <- i
		}
		close(in)
		wg.Wait()
	})
	if !ok {
		return
	}
	for i := 1; i <= total; i++ {
		mu.Lock()
		k := calls[i]
		mu.Unlock()
		if k != 1 {
			rec.Violate("C09/fork.Map/soak/calls", fmt.Sprintf("soak: f called %d times on %d", k, i), c)
			break
		}
		if i%7 == 0 && errs[i] != 1 || i%7 != 0 && got[2*i] != 1 {
			rec.Violate("C09/fork.Map/soak/result", fmt.Sprintf("soak: element %d: %d results, %d errors", i, got[2*i], errs[i]), c)
			break
		}
	}
	rec.Eval(fmt.Sprint("soakfork", total), true)
	rec.Count("soak_values", int64(total))
}

func soakFold(total int) {
	c := &caseT{Site: "fork.Fold/soak", Stage: "fork.Fold/soak", N: total, Par: 8, Comment: "real-time soak"}
	id := common.ID(fmt.Sprint("soakfold", total))
	if common.Skip(id) {
		return
	}
	rec.Begin(id, c)
	defer rec.End(id)
	for _, par := range []int{1, 3, 8} {
		ctx, cancel := context.WithCancel(context.Background())
		xs := make([]int, total)
		want := 1
		for i := range xs {
			xs[i] = 2*i + 3
			want *= xs[i]
		}
		var got []int
		ok := soakGuard("fork.Fold", func() {
			got = pipe.ToSeq(fork.Fold(ctx, par, pipe.Seq(xs...), monoid.FromOp(1, func(a, b int) int { return a * b })))
		})
		cancel()
		if !ok {
			return
		}
		if len(got) != 1 || got[0] != want {
			rec.Violate("C10/fork.Fold/prod/result", fmt.Sprintf("soak: fork.Fold(par=%d) over %d odd numbers gave %v, the left fold gives %d", par, total, got, want), c)
		}
		rec.Eval(fmt.Sprint("soakfold", total, par), true)
		rec.Count("soak_values", int64(total))
	}
}

func soakJoin(total int) {
	c := &caseT{Site: "Join/soak", Stage: "Join/soak", N: total, Comment: "real-time soak"}
	id := common.ID(fmt.Sprint("soakjoin", total))
	if common.Skip(id) {
		return
	}
	rec.Begin(id, c)
	defer rec.End(id)
	ctx, cancel := context.WithCancel(context.Background())
	defer cancel()
	const k = 5
	ins := make([]chan int, k)
	ro := make([]<-chan int, k)
	for i := range ins {
		ins[i] = make(chan int, i)
		ro[i] = ins[i]
	}
	out := pipe.Join(ctx, ro...)
	per := total / k
	var got []int
	ok := soakGuard("Join", func() {
		var wg sync.WaitGroup
		for i := range ins {
			wg.Add(1)
			go func(i int) {
				defer wg.Done()
				for j := 0; j < per; j++ {
					ins[i] <- i*10_000_000 + j
				}
				close(ins[i])
			}(i)
		}
		got = pipe.ToSeq(out)
		wg.Wait()
	})
	if !ok {
		return
	}
	last := map[int]int{}
	for _, v := range got {
		s := v / 10_000_000
		if l, ok := last[s]; ok && v != l+1 || !ok && v != s*10_000_000 {
			rec.Violate("C12/Join/soak/result", fmt.Sprintf("soak: input %d: element %d follows %d", s, v, l), c)
			break
		}
		last[s] = v
	}
	if len(got) != per*k {
		rec.Violate("C12/Join/soak/result", fmt.Sprintf("soak: %d of %d elements delivered", len(got), per*k), c)
	}
	rec.Eval(fmt.Sprint("soakjoin", total), true)
	rec.Count("soak_values", int64(per*k))
}

package envsched

import "slices"

// expectSource: the (possibly infinite) uncancelled output of Emit / Unfold, cut at n values.
// Returns values, errors, and whether the stage terminates by itself (fail-fast failure).
func (c *caseT) expectSource(n int) (vals, errs []int, ends bool) {
	switch c.Stage {
	case "Emit", "Emit+StdErr":
		for i := 0; len(vals) < n && i < n+len(c.Fail)+1; i++ {
			if c.fails(i) {
				errs = append(errs, i)
				if c.Mode != "try" {
					return vals, errs, true
				}
				continue
			}
			vals = append(vals, c.emitV(i))
		}
	case "Unfold":
		x := c.N
		for len(vals) < n {
			vals = append(vals, x)
			if c.fails(x) {
				errs = append(errs, x)
				return vals, errs, true
			}
			x = c.next(x)
		}
	}
	return vals, errs, false
}

// monitorSource: what has been delivered is a prefix of the successive sequence; errors likewise;
// nothing closes before cancel unless a fail-fast failure ended the stage.
func (w *world) monitorSource() {
	if len(w.ins) != 0 || len(w.outs) == 0 {
		return
	}
	s := w.outs[0].snap()
	got := s.ints()
	vals, _, ends := w.c.expectSource(len(got) + 1)
	if !isPrefix(got, vals) {
		w.bad("prefix", "%s delivered %v, which is not a prefix of the successive sequence %v...", w.c.Stage, got, vals)
	}
	if len(w.errs) > 0 {
		es := w.errs[0].snap()
		// values already sent may still sit in the output buffer while the error is out: look ahead by the capacity
		_, errsAhead, endsAhead := w.c.expectSource(len(got) + w.c.Cap + 2)
		if !isPrefix(es.ints(), errsAhead) && !(w.c.Mode == "try" && isPrefix(es.ints(), w.c.allFailsSorted())) {
			w.bad("prefix", "%s delivered errors %v, expected a prefix of %v", w.c.Stage, es.ints(), errsAhead)
		}
		if es.closed && !w.cancelled && !endsAhead {
			w.bad("closed-early", "%s error channel closed without cancel or failure", w.c.Stage)
		}
	}
	if s.closed && !w.cancelled {
		if !ends {
			w.bad("closed-early", "%s closed its output without cancel or fail-fast failure (delivered %v)", w.c.Stage, got)
		} else if !slices.Equal(got, vals) {
			w.bad("closed-early", "%s closed after %v, expected %v before the failure", w.c.Stage, got, vals)
		}
	}
}

func (c *caseT) allFailsSorted() []int {
	f := slices.Clone(c.Fail)
	slices.Sort(f)
	return f
}

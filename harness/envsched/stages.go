package envsched

import (
	"context"
	"fmt"
	"sync"
	"sync/atomic"
	"time"

	"github.com/fogfish/golem/pipe/v2"
	"github.com/fogfish/golem/pipe/v2/fork"
	"github.com/fogfish/golem/pure/monoid"
)

// ---------------------------------------------------------------- user-function families (pure functions of id and FSeed)

func mix(a int, s uint64) uint64 {
	x := uint64(a)*0x9E3779B97F4A7C15 ^ s*0xC2B2AE3D27D4EB4F
	x ^= x >> 29
	x *= 0xBF58476D1CE4E5B9
	x ^= x >> 32
	return x
}

func (c *caseT) img(x int) int    { return x*16 + int(c.FSeed%16) }
func (c *caseT) fan(x int) int    { return int(mix(x, c.FSeed+1) % 4) }
func (c *caseT) pred(x int) bool  { return mix(x, c.FSeed+2)&1 == 1 }
func (c *caseT) predW(x int) bool { return mix(x, c.FSeed+3)%5 != 0 } // mostly true: long TakeWhile prefixes
func (c *caseT) fails(x int) bool {
	for _, f := range c.Fail {
		if f == x {
			return true
		}
	}
	return false
}

// errFor: the error a failing element produces. One in three wraps context.DeadlineExceeded or
// context.Canceled (a step that timed out on its own sub-context) — the pipeline's context is alive.
//
// One in four is an error value whose Error method panics (what a typed-nil *T stored in an error does when the
// method dereferences): the stages pass errors on, nothing in them needs the text. log/slog, which StdErr
// writes to, guards the call itself.
func (c *caseT) errFor(x int) error {
	switch mix(x, c.FSeed+9) % 5 {
	case 0:
		if mix(x, c.FSeed+10)%2 == 0 {
			return ctxErr{x, context.DeadlineExceeded}
		}
		return ctxErr{x, context.Canceled}
	case 1:
		return panicErr(x)
	case 2:
		return sliceErr{x, x} // a failure of an uncomparable dynamic type (as validation error lists are): == on two of them panics
	}
	return idErr(x)
}

func (c *caseT) delay(x int) time.Duration {
	if c.Delay <= 0 {
		return 0
	}
	return time.Duration(mix(x, c.FSeed+4)%uint64(c.Delay)) * time.Microsecond
}
func (c *caseT) fanOut(x int) []int {
	n := c.fan(x)
	out := make([]int, n)
	for j := range out {
		out[j] = x*16 + j
	}
	return out
}

// partialOut: what a failing arrow emits before it fails (Partial cases only)
func (c *caseT) partialOut(x int) []int {
	out := c.fanOut(x)
	if len(out) == 0 {
		return []int{x*16 + 9}
	}
	return out[:(len(out)+1)/2]
}

// step function of Unfold / value function of Emit
func (c *caseT) next(x int) int  { return x*3 + int(c.FSeed%5) + 1 }
func (c *caseT) emitV(i int) int { return (i+1)*16 + int(c.FSeed%16) }

// monoids
type monoidDef struct {
	empty int
	op    func(a, b int) int
}

func (c *caseT) monoidOf() monoidDef {
	switch c.Monoid {
	case "sum":
		return monoidDef{0, func(a, b int) int { return a + b }}
	case "prod":
		return monoidDef{1, func(a, b int) int { return a * b }}
	case "max":
		return monoidDef{-1 << 63, func(a, b int) int { return max(a, b) }}
	case "min":
		return monoidDef{1<<63 - 1, func(a, b int) int { return min(a, b) }}
	case "and":
		return monoidDef{-1, func(a, b int) int { return a & b }}
	case "or":
		return monoidDef{0, func(a, b int) int { return a | b }}
	case "xor7": // commutative, identity 0, but Combine(0-start) differs from identity start only through multiplicity
		return monoidDef{0, func(a, b int) int { return a ^ b }}
	default: // "poly": non-commutative, non-zero empty — sequential Fold only
		return monoidDef{7, func(a, b int) int { return a*31 + b }}
	}
}

func (m monoidDef) fold(xs []int) int {
	acc := m.empty
	for _, x := range xs {
		acc = m.op(acc, x)
	}
	return acc
}

// ---------------------------------------------------------------- F wrappers

func pipeF[A, B any](mode string, f func(A) (B, error)) pipe.F[A, B] {
	switch mode {
	case "lift":
		return pipe.Lift(f)
	case "try":
		return pipe.Try(f)
	default:
		return pipe.Pure(func(a A) B { b, _ := f(a); return b })
	}
}

func forkF[A, B any](mode string, f func(A) (B, error)) fork.F[A, B] {
	switch mode {
	case "lift":
		return fork.Lift(f)
	case "try":
		return fork.Try(f)
	default:
		return fork.Pure(func(a A) B { b, _ := f(a); return b })
	}
}

// Long-lived morphism values. A program builds `parse := pipe.Lift(f)` once and hands the same value to
// stage after stage; two cases in three therefore take their F/FF from a process-wide registry (one value
// per constructor x mode x function family, built on first use and reused by every later case of the
// child process) instead of a fresh one. The registered function body dispatches to the world of the case
// that is running (cases run one at a time). Whatever a morphism value remembers from an earlier stage -
// an abort already signalled, a cached result, a context - then shows up as a wrong list in a later case;
// replays run the case 20 times in one process, so the second run already has a used value.
var (
	curWorld atomic.Pointer[world]
	sharedMu sync.Mutex
	sharedFs = map[string]any{}
)

func (w *world) shared() bool {
	c := w.c
	return mix(len(c.Script)+len(c.Stage)*7+c.Cap*3+c.N, c.FSeed+77)%3 != 0
}

func sharedOf[T any](key string, mk func() T) T {
	sharedMu.Lock()
	defer sharedMu.Unlock()
	if v, ok := sharedFs[key]; ok {
		return v.(T)
	}
	v := mk()
	sharedFs[key] = v
	return v
}

// Decorators. F and FF are interfaces: a program may wrap a library-made morphism in a struct of its own that embeds
// it and overrides Apply (to count, trace, time). The wrapped value still is a Lift, Try or Pure morphism - the stage
// has to treat it by what it embeds. One unshared morphism in three is decorated.
// The decorator counts: a stage that reaches the wrapped function behind the decorator's back (by unwrapping
// or converting the embedded value) runs the function without the caller's Apply, which the count shows.
type decoF[A, B any] struct {
	pipe.F[A, B]
	calls *atomic.Int64
}

func (d decoF[A, B]) Apply(a A) (B, error) { d.calls.Add(1); return d.F.Apply(a) }

type decoFF[A, B any] struct {
	pipe.FF[A, B]
	calls *atomic.Int64
}

func (d decoFF[A, B]) Apply(ctx context.Context, a A, out chan<- B) error {
	d.calls.Add(1)
	return d.FF.Apply(ctx, a, out)
}

type decoForkF[A, B any] struct {
	fork.F[A, B]
	calls *atomic.Int64
}

func (d decoForkF[A, B]) Apply(a A) (B, error) { d.calls.Add(1); return d.F.Apply(a) }

// checkDeco (quiescent points): every call of the function came through the decorator
func (w *world) checkDeco() {
	if !w.decoUsed.Load() {
		return
	}
	w.emu.Lock()
	n := int64(len(w.calls))
	w.emu.Unlock()
	if d := w.decoCalls.Load(); d != n {
		w.bad("calls", "the morphism handed to the stage is the caller's own wrapper around a library morphism (it embeds it and overrides Apply): the function ran %d times but the wrapper's Apply only %d times - the stage reached the wrapped value behind the wrapper", n, d)
	}
}

func (w *world) deco() *atomic.Int64 { w.decoUsed.Store(true); return &w.decoCalls }

func (w *world) decorated() bool {
	c := w.c
	return mix(len(c.Script)*3+len(c.Stage)+c.Cap, c.FSeed+99)%3 == 0
}

func pipeFW[A, B any](w *world, name string, m func(*world, A) (B, error)) pipe.F[A, B] {
	if !w.shared() {
		f := pipeF(w.c.Mode, func(a A) (B, error) { return m(w, a) })
		if w.decorated() {
			return decoF[A, B]{f, w.deco()}
		}
		return f
	}
	return sharedOf("pipe/"+name+"/"+w.c.Mode, func() pipe.F[A, B] {
		return pipeF(w.c.Mode, func(a A) (B, error) { return m(curWorld.Load(), a) })
	})
}

func forkFW[A, B any](w *world, name string, m func(*world, A) (B, error)) fork.F[A, B] {
	if !w.shared() {
		f := forkF(w.c.Mode, func(a A) (B, error) { return m(w, a) })
		if w.decorated() {
			return decoForkF[A, B]{f, w.deco()}
		}
		return f
	}
	return sharedOf("fork/"+name+"/"+w.c.Mode, func() fork.F[A, B] {
		return forkF(w.c.Mode, func(a A) (B, error) { return m(curWorld.Load(), a) })
	})
}

func arrowOf(ctx context.Context, x int, out chan<- int) error {
	return curWorld.Load().fArrow(ctx, x, out)
}

func pipeFFW(w *world) pipe.FF[int, int] {
	arrow := w.fArrow
	mk := func() pipe.FF[int, int] {
		if w.c.Mode == "try" {
			return pipe.TryF(arrow)
		}
		return pipe.LiftF(arrow)
	}
	if !w.shared() {
		if w.decorated() {
			return decoFF[int, int]{mk(), w.deco()}
		}
		return mk()
	}
	arrow = arrowOf
	return sharedOf("pipe/arrow/"+w.c.Mode, mk)
}

func forkFFW(w *world) fork.FF[int, int] {
	arrow := w.fArrow
	mk := func() fork.FF[int, int] {
		if w.c.Mode == "try" {
			return fork.TryF(arrow)
		}
		return fork.LiftF(arrow)
	}
	if !w.shared() {
		return mk()
	}
	arrow = arrowOf
	return sharedOf("fork/arrow/"+w.c.Mode, mk)
}

// user function bodies (run on library goroutines)
func (w *world) fMap(x int) (int, error) {
	w.called(x)
	if d := w.c.delay(x); d > 0 {
		time.Sleep(d)
	}
	if w.c.fails(x) {
		return 0, w.c.errFor(x)
	}
	return w.c.img(x), nil
}
func (w *world) fPred(x int) (bool, error) {
	w.called(x)
	if d := w.c.delay(x); d > 0 {
		time.Sleep(d)
	}
	if w.c.fails(x) {
		return true, w.c.errFor(x) // a failing predicate counts as "false" whatever it returned
	}
	return w.c.pred(x), nil
}
func (w *world) fPredW(x int) (bool, error) {
	w.called(x)
	if w.c.fails(x) {
		return true, w.c.errFor(x)
	}
	return w.c.predW(x), nil
}

// okPred / okPredW: the predicate as the stages read it (true and no error)
func (c *caseT) okPred(x int) bool  { return c.pred(x) && !c.fails(x) }
func (c *caseT) okPredW(x int) bool { return c.predW(x) && !c.fails(x) }
func (w *world) fEach(x int) (int, error) {
	w.called(x)
	if d := w.c.delay(x); d > 0 {
		time.Sleep(d)
	}
	if w.c.fails(x) {
		return 0, w.c.errFor(x) // ForEach has no error output: a failing visit is just a visit
	}
	return x, nil
}
func (w *world) fArrow(ctx context.Context, x int, out chan<- int) error {
	w.called(x)
	if d := w.c.delay(x); d > 0 {
		time.Sleep(d)
	}
	if w.c.fails(x) {
		if w.c.Partial {
			// the arrow hands out part of its output, then fails (the values are identifiable: x*16+j)
			for _, v := range w.c.partialOut(x) {
				select {
				case out <- v:
				case <-ctx.Done():
					return nil
				}
			}
		}
		return w.c.errFor(x)
	}
	for _, v := range w.c.fanOut(x) {
		select {
		case out <- v:
		case <-ctx.Done():
			return nil
		}
	}
	return nil
}
func (w *world) fNext(x int) (int, error) {
	w.called(x)
	if d := w.c.delay(x); d > 0 {
		time.Sleep(d) // a slow step function: the consumer is already waiting when the next value is ready
	}
	if w.c.fails(x) {
		return 0, w.c.errFor(x)
	}
	return w.c.next(x), nil
}
func (w *world) fEmit(i int) (int, error) {
	w.called(i)
	if w.c.fails(i) {
		return 0, w.c.errFor(i)
	}
	return w.c.emitV(i), nil
}

func (w *world) mon() monoid.Monoid[int] {
	m := w.c.monoidOf()
	return monoid.FromOp(m.empty, func(a, b int) int {
		if d := w.c.delay(b); d > 0 {
			time.Sleep(d)
		}
		return m.op(a, b)
	})
}

// ---------------------------------------------------------------- building the stage under test

func (w *world) build() {
	c := w.c
	ctx := w.ctx
	tick := time.Duration(c.Tick)
	curWorld.Store(w)
	switch c.Stage {
	case "Map", "Map+StdErr":
		out, exx := pipe.Map(ctx, w.addIn(c.Cap), pipeFW(w, "fMap", (*world).fMap))
		if c.Stage == "Map+StdErr" {
			addOut(w, &w.outs, "out", pipe.StdErr(out, exx))
		} else {
			addOut(w, &w.outs, "out", out)
			addOut(w, &w.errs, "err", exx)
		}
	case "FMap", "FMap+StdErr":
		ff := pipeFFW(w)
		out, exx := pipe.FMap(ctx, w.addIn(c.Cap), ff)
		if c.Stage == "FMap+StdErr" {
			addOut(w, &w.outs, "out", pipe.StdErr(out, exx))
		} else {
			addOut(w, &w.outs, "out", out)
			addOut(w, &w.errs, "err", exx)
		}
	case "Filter":
		addOut(w, &w.outs, "out", pipe.Filter(ctx, w.addIn(c.Cap), pipeFW(w, "fPred", (*world).fPred)))
	case "ForEach":
		addOut(w, &w.dones, "done", pipe.ForEach(ctx, w.addIn(c.Cap), pipeFW(w, "fEach", (*world).fEach)))
	case "Void":
		addOut(w, &w.dones, "done", pipe.Void(ctx, w.addIn(c.Cap)))
	case "Fold":
		addOut(w, &w.outs, "out", pipe.Fold(ctx, w.addIn(c.Cap), w.mon()))
	case "Partition":
		l, r := pipe.Partition(ctx, w.addIn(c.Cap), pipeFW(w, "fPred", (*world).fPred))
		addOut(w, &w.outs, "out", l)
		addOut(w, &w.outs, "out", r)
	case "Join":
		ins := make([]<-chan int, len(c.Inputs))
		for i := range ins {
			ins[i] = w.addIn(c.Cap)
		}
		if c.DupInput && len(ins) > 0 {
			ins = append(ins, ins[0]) // the same channel twice: still every element once, closes with it
		}
		if c.NilInput {
			ins = append(ins[:len(ins)/2:len(ins)/2], append([]<-chan int{nil}, ins[len(ins)/2:]...)...)
		}
		addOut(w, &w.outs, "out", pipe.Join(ctx, ins...))
	case "Take":
		addOut(w, &w.outs, "out", pipe.Take(ctx, w.addIn(c.Cap), c.N))
	case "TakeWhile":
		addOut(w, &w.outs, "out", pipe.TakeWhile(ctx, w.addIn(c.Cap), pipeFW(w, "fPredW", (*world).fPredW)))
	case "Throttling":
		addOut(w, &w.outs, "out", pipe.Throttling(ctx, w.addIn(c.Cap), c.N, tick))
		w.persist = 1
	case "Emit", "Emit+StdErr":
		out, exx := pipe.Emit(ctx, c.Cap, tick, pipeFW(w, "fEmit", (*world).fEmit))
		if c.Stage == "Emit+StdErr" {
			addOut(w, &w.outs, "out", pipe.StdErr(out, exx))
		} else {
			addOut(w, &w.outs, "out", out)
			addOut(w, &w.errs, "err", exx)
		}
	case "Unfold":
		out, exx := pipe.Unfold(ctx, c.Cap, c.N, pipeFW(w, "fNext", (*world).fNext))
		addOut(w, &w.outs, "out", out)
		addOut(w, &w.errs, "err", exx)
	case "New":
		eg, in := pipe.New[int](ctx, c.Cap)
		n := max(1, c.Senders)
		for i := 0; i < n; i++ {
			w.addInChan(in)
		}
		addOut(w, &w.outs, "out", eg)
	// ---- fork
	case "fork.Map":
		out, exx := fork.Map(ctx, c.Par, w.addIn(c.Cap), forkFW(w, "fMap", (*world).fMap))
		addOut(w, &w.outs, "out", out)
		addOut(w, &w.errs, "err", exx)
	case "fork.FMap":
		ff := forkFFW(w)
		out, exx := fork.FMap(ctx, c.Par, w.addIn(c.Cap), ff)
		addOut(w, &w.outs, "out", out)
		addOut(w, &w.errs, "err", exx)
	case "fork.Filter":
		addOut(w, &w.outs, "out", fork.Filter(ctx, c.Par, w.addIn(c.Cap), forkFW(w, "fPred", (*world).fPred)))
	case "fork.Partition":
		l, r := fork.Partition(ctx, c.Par, w.addIn(c.Cap), forkFW(w, "fPred", (*world).fPred))
		addOut(w, &w.outs, "out", l)
		addOut(w, &w.outs, "out", r)
	case "fork.ForEach":
		addOut(w, &w.dones, "done", fork.ForEach(ctx, c.Par, w.addIn(c.Cap), forkFW(w, "fEach", (*world).fEach)))
	case "fork.Void":
		addOut(w, &w.dones, "done", fork.Void(ctx, c.Par, w.addIn(c.Cap)))
	case "fork.Fold":
		addOut(w, &w.outs, "out", fork.Fold(ctx, c.Par, w.addIn(c.Cap), w.mon()))
	default:
		panic("unknown stage " + c.Stage)
	}
}

// ---------------------------------------------------------------- list oracle (uncancelled result for the planned inputs)

type expectT struct {
	outs     [][]int      // per value output, in order
	errs     []int        // error ids, in order
	calls    []int        // arguments of the user function, in order (sequential stages)
	eat      int          // number of input elements the stage may consume at most (-1: all)
	optional map[int]bool // values that may or may not be delivered (partial output of failing arrows): ignored
	kind     string       // seq | multiset | interleave
	partial  bool         // fork stage in fail-fast mode: a failing worker stops, the others go on — only sub-multisets are known
}

func (c *caseT) expect() expectT {
	in := []int{}
	if len(c.Inputs) > 0 {
		in = c.Inputs[0]
	}
	e := expectT{eat: -1, kind: "seq"}
	switch c.Stage {
	case "Map", "Map+StdErr", "fork.Map":
		var out []int
		for _, x := range in {
			e.calls = append(e.calls, x)
			if c.fails(x) {
				e.errs = append(e.errs, x)
				if c.Mode != "try" {
					break
				}
				continue
			}
			out = append(out, c.img(x))
		}
		e.outs = [][]int{out}
	case "FMap", "FMap+StdErr", "fork.FMap":
		var out []int
		for _, x := range in {
			e.calls = append(e.calls, x)
			if c.fails(x) {
				e.errs = append(e.errs, x)
				if c.Partial {
					if e.optional == nil {
						e.optional = map[int]bool{}
					}
					for _, v := range c.partialOut(x) {
						e.optional[v] = true
					}
				}
				if c.Mode != "try" {
					break
				}
				continue
			}
			out = append(out, c.fanOut(x)...)
		}
		e.outs = [][]int{out}
	case "Filter", "fork.Filter":
		var out []int
		for _, x := range in {
			e.calls = append(e.calls, x)
			if c.okPred(x) {
				out = append(out, x)
			}
		}
		e.outs = [][]int{out}
	case "Partition", "fork.Partition":
		var l, r []int
		for _, x := range in {
			e.calls = append(e.calls, x)
			if c.okPred(x) {
				l = append(l, x)
			} else {
				r = append(r, x)
			}
		}
		e.outs = [][]int{l, r}
	case "ForEach", "fork.ForEach":
		e.calls = append(e.calls, in...)
	case "Void", "fork.Void":
	case "Fold", "fork.Fold":
		e.outs = [][]int{{c.monoidOf().fold(in)}}
	case "Take":
		n := max(0, min(c.N, len(in)))
		e.outs = [][]int{append([]int{}, in[:n]...)}
		e.eat = max(0, c.N)
	case "TakeWhile":
		var out []int
		e.eat = 0
		for _, x := range in {
			e.calls = append(e.calls, x)
			e.eat++
			if !c.okPredW(x) {
				break
			}
			out = append(out, x)
		}
		e.outs = [][]int{out}
	case "Throttling":
		e.outs = [][]int{append([]int{}, in...)}
	case "Join", "New":
		var all []int
		for _, i := range c.Inputs {
			all = append(all, i...)
		}
		e.outs = [][]int{all}
		e.kind = "interleave"
	}
	if len(c.Stage) > 5 && c.Stage[:5] == "fork." {
		e.kind = "multiset"
		if c.Mode == "lift" && len(c.Fail) > 0 && (c.Stage == "fork.Map" || c.Stage == "fork.FMap") {
			// each failing worker reports its error and stops; which elements the remaining workers get to see
			// depends on the schedule: the complete images / errors are upper bounds
			c2 := *c
			c2.Mode = "try"
			e2 := c2.expect()
			e.outs, e.errs, e.partial, e.optional = e2.outs, e2.errs, true, e2.optional
		}
	}
	return e
}

func (c *caseT) String() string {
	return fmt.Sprintf("%s cap=%d par=%d mode=%s n=%d inputs=%v fail=%v tick=%d script=%v end=%s", c.Stage, c.Cap, c.Par, c.Mode, c.N, c.Inputs, c.Fail, c.Tick, c.Script, c.End)
}

package envsched

import (
	"context"
	"fmt"
	"slices"
	"testing"
	"time"

	"github.com/fogfish/golem/pipe/v2"
	"github.com/fogfish/golem/pipe/v2/fork"
	"github.com/fogfish/golem/pure/monoid"
)

// Element types. The stages are generic; the scheduler and the scale programs use int elements. This family runs
// every stage group once more, as a bubble program, for element types with properties of their own: zero-size types
// (every value has the same address, every value equals every other), strings, fresh pointers, maps (reference
// values), large arrays, interface values of mixed dynamic type. Values carry a number that the checks read back
// (zero-size values carry none: only counts are compared for them).

type elemKind[E any] struct {
	name string
	mk   func(i int) E
	id   func(e E) int // -1 = the type carries no number
}

type tickT struct{}

type bigElem struct {
	head int
	pad  [62]int64
	tail int
}

func idsOf[E any](k elemKind[E], xs []E) []int {
	out := make([]int, len(xs))
	for i, x := range xs {
		out[i] = k.id(x)
	}
	return out
}

func sameIDs(got, want []int, ordered bool) bool {
	if len(got) != len(want) {
		return false
	}
	if len(got) > 0 && got[0] == -1 {
		return true // zero-size elements: the count is all there is
	}
	if !ordered {
		got, want = slices.Clone(got), slices.Clone(want)
		slices.Sort(got)
		slices.Sort(want)
	}
	return slices.Equal(got, want)
}

func regTyped[E any](k elemKind[E]) {
	mkAll := func(n int) []E {
		xs := make([]E, n)
		for i := range xs {
			xs[i] = k.mk(i + 1)
		}
		return xs
	}
	num := func(e E, pos int) int { // number of the element, or its position for types without one
		if v := k.id(e); v >= 0 {
			return v
		}
		return pos
	}
	// ---- C05: sequential stages
	progs["typed/sequential/"+k.name] = func(c *caseT) string {
		ctx, cancel := context.WithCancel(context.Background())
		defer cancel()
		xs := mkAll(c.N)
		want := idsOf(k, xs)
		if got := idsOf(k, pipe.ToSeq(pipe.Seq(xs...))); !sameIDs(got, want, true) {
			return fmt.Sprintf("ToSeq(Seq) over %s: got %d elements %v, want %d", k.name, len(got), head(got), len(want))
		}
		out, exx := pipe.Map(ctx, pipe.Seq(xs...), pipe.Pure(func(e E) E { return e }))
		go func() {
			for range exx {
			}
		}()
		if got := idsOf(k, pipe.ToSeq(out)); !sameIDs(got, want, true) {
			return fmt.Sprintf("Map(identity) over %s: got %d elements %v, want %d", k.name, len(got), head(got), len(want))
		}
		pos := 0
		keep := func(e E) bool { pos++; return num(e, pos)%3 != 0 }
		var wantF []int
		for i, x := range xs {
			if num(x, i+1)%3 != 0 {
				wantF = append(wantF, k.id(x))
			}
		}
		if got := idsOf(k, pipe.ToSeq(pipe.Filter(ctx, pipe.Seq(xs...), pipe.Pure(keep)))); !sameIDs(got, wantF, true) {
			return fmt.Sprintf("Filter over %s: got %d elements %v, want %d", k.name, len(got), head(got), len(wantF))
		}
		pos = 0
		l, r := pipe.Partition(ctx, pipe.Seq(xs...), pipe.Pure(keep))
		ls := idsOf(k, pipe.ToSeq(l))
		rs := idsOf(k, pipe.ToSeq(r))
		if !sameIDs(ls, wantF, true) || len(ls)+len(rs) != len(xs) {
			return fmt.Sprintf("Partition over %s: %d + %d elements of %d, left %v, want %d left", k.name, len(ls), len(rs), len(xs), head(ls), len(wantF))
		}
		tn := c.N/2 + 1
		if got := idsOf(k, pipe.ToSeq(pipe.Take(ctx, pipe.Seq(xs...), tn))); !sameIDs(got, want[:min(tn, len(want))], true) {
			return fmt.Sprintf("Take(%d) over %s: got %d elements", tn, k.name, len(got))
		}
		pos = 0
		tw := pipe.ToSeq(pipe.TakeWhile(ctx, pipe.Seq(xs...), pipe.Pure(func(e E) bool { pos++; return pos <= tn })))
		if got := idsOf(k, tw); !sameIDs(got, want[:min(tn, len(want))], true) {
			return fmt.Sprintf("TakeWhile over %s: got %d elements, want %d", k.name, len(got), min(tn, len(want)))
		}
		fo, fe := pipe.FMap(ctx, pipe.Seq(xs...), pipe.LiftF(func(ctx context.Context, e E, out chan<- E) error {
			for j := 0; j < 2; j++ {
				select {
				case out <- e:
				case <-ctx.Done():
				}
			}
			return nil
		}))
		go func() {
			for range fe {
			}
		}()
		var want2 []int
		for _, v := range want {
			want2 = append(want2, v, v)
		}
		if got := idsOf(k, pipe.ToSeq(fo)); !sameIDs(got, want2, true) {
			return fmt.Sprintf("FMap(twice) over %s: got %d elements %v, want %d", k.name, len(got), head(got), len(want2))
		}
		visits := 0
		<-pipe.ForEach(ctx, pipe.Seq(xs...), pipe.Pure(func(e E) E { visits++; return e }))
		if visits != len(xs) {
			return fmt.Sprintf("ForEach over %s: %d visits for %d elements", k.name, visits, len(xs))
		}
		<-pipe.Void(ctx, pipe.Seq(xs...))
		// Fold: the monoid keeps the last element and counts through the closure
		cnt := 0
		last := pipe.ToSeq(pipe.Fold(ctx, pipe.Seq(xs...), monoid.FromOp(k.mk(0), func(a, b E) E { cnt++; return b })))
		if len(last) != 1 || cnt != len(xs) || (len(xs) > 0 && k.id(last[0]) != want[len(want)-1]) || (len(xs) == 0 && k.id(last[0]) != k.id(k.mk(0))) {
			return fmt.Sprintf("Fold(last) over %s: %d values, %d combines for %d elements", k.name, len(last), cnt, len(xs))
		}
		return ""
	}
	// ---- C08: the unbounded channel
	progs["typed/new/"+k.name] = func(c *caseT) string {
		ctx, cancel := context.WithCancel(context.Background())
		defer cancel()
		rcv, snd := pipe.New[E](ctx, c.Cap)
		xs := mkAll(c.N)
		var got []int
		for i, x := range xs {
			snd <- x
			if i%3 == 2 { // the receiver takes one now and then: the backlog grows and shrinks
				v, ok := <-rcv
				if !ok {
					return fmt.Sprintf("New[%s]: receive side closed after %d sends, no cancel and no close", k.name, i+1)
				}
				got = append(got, k.id(v))
			}
		}
		if c.End == "cancel" {
			// (nothing is sent after the cancel)
			cancel()
		} else {
			close(snd)
		}
		for v := range rcv {
			got = append(got, k.id(v))
		}
		if want := idsOf(k, xs); !sameIDs(got, want, true) {
			return fmt.Sprintf("New[%s] cap %d, %d sends then %s: received %d values %v", k.name, c.Cap, len(xs), c.End, len(got), head(got))
		}
		return ""
	}
	// ---- C09 / C10: fork stages
	progs["typed/fork/"+k.name] = func(c *caseT) string {
		ctx, cancel := context.WithCancel(context.Background())
		defer cancel()
		xs := mkAll(c.N)
		want := idsOf(k, xs)
		out, exx := fork.Map(ctx, c.Par, fork.Seq(xs...), fork.Pure(func(e E) E { return e }))
		go func() {
			for range exx {
			}
		}()
		if got := idsOf(k, fork.ToSeq(out)); !sameIDs(got, want, false) {
			return fmt.Sprintf("fork.Map(identity, par %d) over %s: got %d elements, want %d", c.Par, k.name, len(got), len(want))
		}
		if got := idsOf(k, fork.ToSeq(fork.Filter(ctx, c.Par, fork.Seq(xs...), fork.Pure(func(e E) bool { return true })))); !sameIDs(got, want, false) {
			return fmt.Sprintf("fork.Filter(true, par %d) over %s: got %d elements, want %d", c.Par, k.name, len(got), len(want))
		}
		l, r := fork.Partition(ctx, c.Par, fork.Seq(xs...), fork.Pure(func(e E) bool { return k.id(e)%2 == 0 }))
		var ls, rs []int
		done := make(chan struct{})
		go func() {
			defer close(done)
			rs = idsOf(k, fork.ToSeq(r))
		}()
		ls = idsOf(k, fork.ToSeq(l))
		<-done
		if len(ls)+len(rs) != len(xs) {
			return fmt.Sprintf("fork.Partition(par %d) over %s: %d + %d elements of %d", c.Par, k.name, len(ls), len(rs), len(xs))
		}
		<-fork.ForEach(ctx, c.Par, fork.Seq(xs...), fork.Pure(func(e E) E { return e }))
		return ""
	}
	// ---- C11: sources
	progs["typed/sources/"+k.name] = func(c *caseT) string {
		ctx, cancel := context.WithCancel(context.Background())
		defer cancel()
		out, _ := pipe.Emit(ctx, c.Cap, time.Millisecond, pipe.Pure(func(i int) E { return k.mk(i + 1) }))
		for i := 0; i < c.N; i++ {
			v, ok := <-out
			if !ok || (k.id(v) >= 0 && k.id(v) != i+1) {
				return fmt.Sprintf("Emit[%s]: value %d is number %d (open=%v)", k.name, i, k.id(v), ok)
			}
		}
		n := 0
		uo, _ := pipe.Unfold(ctx, c.Cap, k.mk(1), pipe.Pure(func(e E) E { n++; return k.mk(n + 1) }))
		for i := 0; i < c.N; i++ {
			v, ok := <-uo
			if !ok || (k.id(v) >= 0 && k.id(v) != i+1) {
				return fmt.Sprintf("Unfold[%s]: value %d is number %d (open=%v)", k.name, i, k.id(v), ok)
			}
		}
		return ""
	}
	// ---- C12 / C13
	progs["typed/join/"+k.name] = func(c *caseT) string {
		ctx, cancel := context.WithCancel(context.Background())
		defer cancel()
		xs := mkAll(c.N)
		a, b := c.N/3, 2*c.N/3
		got := idsOf(k, pipe.ToSeq(pipe.Join(ctx, pipe.Seq(xs[:a]...), pipe.Seq(xs[a:b]...), pipe.Seq(xs[b:]...))))
		if !sameIDs(got, idsOf(k, xs), false) {
			return fmt.Sprintf("Join over %s: got %d elements, want %d", k.name, len(got), len(xs))
		}
		return ""
	}
	progs["typed/throttle/"+k.name] = func(c *caseT) string {
		ctx, cancel := context.WithCancel(context.Background())
		defer cancel()
		xs := mkAll(c.N)
		start := time.Now()
		got := pipe.ToSeq(pipe.Throttling(ctx, pipe.Seq(xs...), 2, time.Second))
		if !sameIDs(idsOf(k, got), idsOf(k, xs), true) {
			return fmt.Sprintf("Throttling over %s: got %d elements, want %d", k.name, len(got), len(xs))
		}
		if el := time.Since(start); c.N > 2 && el < time.Duration((c.N-1)/2)*time.Second {
			return fmt.Sprintf("Throttling over %s: %d elements at 2 per second delivered within %v", k.name, c.N, el)
		}
		return ""
	}
}

func head(xs []int) []int {
	if len(xs) > 12 {
		return xs[:12]
	}
	return xs
}

var typedKinds []string

func init() {
	add := func(name string) { typedKinds = append(typedKinds, name) }
	regTyped(elemKind[struct{}]{"struct{}", func(int) struct{} { return struct{}{} }, func(struct{}) int { return -1 }})
	add("struct{}")
	regTyped(elemKind[tickT]{"tick", func(int) tickT { return tickT{} }, func(tickT) int { return -1 }})
	add("tick")
	regTyped(elemKind[[0]int]{"[0]int", func(int) [0]int { return [0]int{} }, func([0]int) int { return -1 }})
	add("[0]int")
	regTyped(elemKind[string]{"string", func(i int) string { return fmt.Sprint("s-", i) }, func(s string) int {
		var n int
		fmt.Sscanf(s, "s-%d", &n)
		return n
	}})
	add("string")
	regTyped(elemKind[*int]{"*int", func(i int) *int { p := new(int); *p = i; return p }, func(p *int) int {
		if p == nil {
			return -2
		}
		return *p
	}})
	add("*int")
	regTyped(elemKind[map[string]int]{"map", func(i int) map[string]int { return map[string]int{"id": i} }, func(m map[string]int) int {
		if m == nil {
			return -2
		}
		return m["id"]
	}})
	add("map")
	regTyped(elemKind[bigElem]{"big", func(i int) bigElem { return bigElem{head: i, tail: -i} }, func(b bigElem) int {
		if b.tail != -b.head {
			return -3
		}
		return b.head
	}})
	add("big")
	regTyped(elemKind[any]{"any", func(i int) any {
		switch i % 4 {
		case 0:
			return i
		case 1:
			return fmt.Sprint(i)
		case 2:
			return [2]int{i, i}
		}
		return &bigElem{head: i, tail: -i}
	}, func(v any) int {
		switch x := v.(type) {
		case int:
			return x
		case string:
			var n int
			fmt.Sscan(x, &n)
			return n
		case [2]int:
			return x[0]
		case *bigElem:
			return x.head
		}
		return -2
	}})
	add("any")
	regTyped(elemKind[bool]{"bool", func(i int) bool { return i%2 == 0 }, func(b bool) int {
		if b {
			return 0
		}
		return 1
	}})
	add("bool")
}

// typedProgs runs the groups that belong to the property at hand
func typedProgs(t *testing.T, prop string) {
	group := map[string][]string{"C05": {"sequential"}, "C06": {"sequential", "new", "sources"}, "C08": {"new"}, "C09": {"fork"}, "C11": {"sources"}, "C12": {"join"}, "C13": {"throttle"}}[prop]
	for _, g := range group {
		for _, kd := range typedKinds {
			if kd == "bool" && g == "sources" {
				continue // bool values carry no running number
			}
			for _, n := range []int{0, 1, 2, 5, 17, 40} {
				switch g {
				case "new":
					for _, cp := range []int{0, 1, 2, 5} {
						for _, end := range []string{"close", "cancel"} {
							runProg(t, prop, &caseT{Stage: "prog/typed/new/" + kd, N: n, Cap: cp, End: end})
						}
					}
				case "fork":
					for _, par := range []int{1, 2, 3, 8} {
						runProg(t, prop, &caseT{Stage: "prog/typed/fork/" + kd, N: n, Par: par})
					}
				case "sources":
					for _, cp := range []int{0, 1, 4} {
						runProg(t, prop, &caseT{Stage: "prog/typed/sources/" + kd, N: n, Cap: cp, Tick: int64(time.Millisecond)})
					}
				case "throttle":
					if n <= 17 {
						runProg(t, prop, &caseT{Stage: "prog/typed/throttle/" + kd, N: n, Tick: int64(time.Second)})
					}
				default:
					runProg(t, prop, &caseT{Stage: "prog/typed/" + g + "/" + kd, N: n, Cap: n})
				}
			}
		}
	}
}

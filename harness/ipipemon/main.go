// ipipemon — C20: PipeN (staged copy of internal/pipe) composes left to right,
// each function applied exactly once. Trace functions make the result *be* the
// application order; call counters and argument logs give exactly-once.
package main

import (
	"fmt"
	"strings"

	"verif/harness/common"
)

type caseT struct {
	Family string   `json:"family"`
	N      int      `json:"n"`
	Arg    string   `json:"arg"`
	Coef   []uint64 `json:"coef,omitempty"`
}

var rec *common.Recorder

func main() {
	rec = common.New("C20", "N = 2..20 x seed-chosen arguments x three function families (string trace functions on one type; "+
		"distinct type per stage; affine maps mod 2^64 with seed-chosen odd multipliers, pairwise non-commuting); "+
		"distinct by (family, N, argument, coefficients); every case is non-trivial (N >= 2 functions, any transposition/omission/duplication changes the result)")
	defer rec.Finish()
	rng := common.Rng("args")
	nargs := common.Pick(300, 5000)
	for n := 2; n <= 20; n++ {
		for k := 0; k < nargs; k++ {
			arg := fmt.Sprintf("a%x", rng.Uint64()>>uint(rng.IntN(60)))
			if k == 0 {
				arg = ""
			}
			runTrace(n, arg)
			runHetero(n, arg)
			coef := make([]uint64, 2*n)
			for i := range coef {
				coef[i] = rng.Uint64() | 1
			}
			runAffine(n, rng.Uint64(), coef)
		}
	}
}

func runTrace(n int, arg string) {
	c := caseT{Family: "trace", N: n, Arg: arg}
	calls := make([]int, n)
	seen := make([]string, n)
	fs := make([]func(string) string, n)
	for i := range fs {
		i := i
		fs[i] = func(s string) string { calls[i]++; seen[i] = s; return s + fmt.Sprintf("<%d>", i) }
	}
	var got string
	p := common.Catch(func() { got = composeS(fs)(arg) })
	want := arg
	for i := 0; i < n; i++ {
		if p == nil && seen[i] != want && calls[i] == 1 {
			rec.Violate(fmt.Sprintf("C20/Pipe%d/argument", n), fmt.Sprintf("f_%d received %q, previous result is %q", i+1, seen[i], want), c)
		}
		want += fmt.Sprintf("<%d>", i)
	}
	rec.Eval(fmt.Sprint("t", n, arg), true)
	rec.Count("function_applications_observed", int64(sum(calls)))
	if p != nil {
		rec.Violate(fmt.Sprintf("C20/Pipe%d/panic", n), fmt.Sprint(p), c)
		return
	}
	if got != want {
		rec.Violate(fmt.Sprintf("C20/Pipe%d/result", n), fmt.Sprintf("got %q want %q", got, want), c)
	}
	for i, k := range calls {
		if k != 1 {
			rec.Violate(fmt.Sprintf("C20/Pipe%d/calls", n), fmt.Sprintf("f_%d applied %d times (calls %v)", i+1, k, calls), c)
		}
	}
	if rec.WantSample() {
		rec.Sample(map[string]any{"family": "trace", "n": n, "arg": arg, "result": got, "calls": calls})
	}
	// the composed function is reusable: a second application behaves the same
	for i := range calls {
		calls[i] = 0
	}
	if g2 := composeS(fs)(arg + "!"); g2 != strings.Replace(want, arg, arg+"!", 1) && arg != "" {
		rec.Violate(fmt.Sprintf("C20/Pipe%d/reuse", n), fmt.Sprintf("second application got %q", g2), c)
	}
}

func runHetero(n int, arg string) {
	c := caseT{Family: "hetero", N: n, Arg: arg}
	calls := make([]int, n)
	hit := func(i int, in string) string { calls[i]++; return in + fmt.Sprintf("[%d]", i) }
	var got string
	p := common.Catch(func() { got = composeH(n, hit)(t0{arg}) })
	want := arg
	for i := 0; i < n; i++ {
		want += fmt.Sprintf("[%d]", i)
	}
	rec.Eval(fmt.Sprint("h", n, arg), true)
	rec.Count("function_applications_observed", int64(sum(calls)))
	if p != nil {
		rec.Violate(fmt.Sprintf("C20/Pipe%d/panic", n), fmt.Sprint(p), c)
		return
	}
	if got != want {
		rec.Violate(fmt.Sprintf("C20/Pipe%d/result", n), fmt.Sprintf("got %q want %q", got, want), c)
	}
	for i, k := range calls {
		if k != 1 {
			rec.Violate(fmt.Sprintf("C20/Pipe%d/calls", n), fmt.Sprintf("f_%d applied %d times (calls %v)", i+1, k, calls), c)
		}
	}
}

func runAffine(n int, arg uint64, coef []uint64) {
	c := caseT{Family: "affine", N: n, Arg: fmt.Sprint(arg), Coef: coef}
	calls := make([]int, n)
	fs := make([]func(uint64) uint64, n)
	for i := range fs {
		i := i
		fs[i] = func(x uint64) uint64 { calls[i]++; return x*coef[2*i] + coef[2*i+1] }
	}
	var got uint64
	p := common.Catch(func() { got = composeI(fs)(arg) })
	want := arg
	for i := 0; i < n; i++ {
		want = want*coef[2*i] + coef[2*i+1]
	}
	rec.Eval(fmt.Sprint("a", n, arg, coef[0]), true)
	rec.Count("function_applications_observed", int64(sum(calls)))
	if p != nil {
		rec.Violate(fmt.Sprintf("C20/Pipe%d/panic", n), fmt.Sprint(p), c)
		return
	}
	if got != want {
		rec.Violate(fmt.Sprintf("C20/Pipe%d/result", n), fmt.Sprintf("affine: got %d want %d", got, want), c)
	}
	for i, k := range calls {
		if k != 1 {
			rec.Violate(fmt.Sprintf("C20/Pipe%d/calls", n), fmt.Sprintf("affine: f_%d applied %d times", i+1, k), c)
		}
	}
}

func sum(xs []int) (s int) {
	for _, x := range xs {
		s += x
	}
	return
}

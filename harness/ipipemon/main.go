// ipipemon — C20: PipeN (staged copy of internal/pipe) composes left to right,
// each function applied exactly once. Trace functions make the result *be* the
// application order; call counters and argument logs give exactly-once.
package main

import (
	"fmt"
	"runtime"
	"strings"
	"sync"
	"sync/atomic"

	"verif/harness/common"
)

type caseT struct {
	Family string   `json:"family"`
	N      int      `json:"n"`
	Arg    string   `json:"arg"`
	Coef   []uint64 `json:"coef,omitempty"`
}

var rec *common.Recorder

func main() {
	rec = common.New("C20", "N = 2..20 x seed-chosen arguments x three function families (string trace functions on one type; "+
		"distinct type per stage; affine maps mod 2^64 with seed-chosen odd multipliers, pairwise non-commuting); "+
		"distinct by (family, N, argument, coefficients); every case is non-trivial (N >= 2 functions, any transposition/omission/duplication changes the result)")
	defer rec.Finish()
	rng := common.Rng("args")
	nargs := common.Pick(300, 5000)
	for n := 2; n <= 20; n++ {
		for k := 0; k < nargs; k++ {
			arg := fmt.Sprintf("a%x", rng.Uint64()>>uint(rng.IntN(60)))
			if k == 0 {
				arg = ""
			}
			runTrace(n, arg)
			if heteroEnabled {
				runHetero(n, arg)
				if k < nargs/5 {
					runRoundTrip(n, k%2, arg)
					runZero(n, k%4, arg)
				}
			}
			coef := make([]uint64, 2*n)
			for i := range coef {
				coef[i] = rng.Uint64() | 1
			}
			runAffine(n, rng.Uint64(), coef)
			if k < nargs/4 {
				runNil(n, int(rng.Uint64()%97), rng.Uint64())
			}
			if k < nargs/10 {
				runPanic(n, int(rng.Uint64()%uint64(n)), rng.Uint64(), coef)
				runRecursive(n, rng.Uint64()%4096, coef, int(rng.Uint64()%uint64(n)))
				runNested(n, rng.Uint64()%100000, coef)
			}
		}
		coef := make([]uint64, 2*n)
		for i := range coef {
			coef[i] = rng.Uint64() | 1
		}
		runConcurrent(n, coef)
		runColdConcurrent(n, coef, common.Pick(150, 2000))
	}
}

type nilErr struct{ tag int }

func (e *nilErr) Error() string { return fmt.Sprint("e", e.tag) }

// interface-typed stages with nil values flowing through (any, and int -> error -> int chains)
func runNil(n, arg int, bits uint64) {
	c := caseT{Family: "nil-interfaces", N: n, Arg: fmt.Sprint(arg, bits)}
	// --- any chain: stage i returns nil when bit i is set, else a tagged value derived from its input
	calls := make([]int, n)
	step := func(i int, x any) any {
		if bits>>uint(i)&1 == 1 {
			return nil
		}
		return fmt.Sprint(x, "|", i)
	}
	fs := make([]func(any) any, n)
	for i := range fs {
		i := i
		fs[i] = func(x any) any { calls[i]++; return step(i, x) }
	}
	var first any = arg
	if bits>>63 == 1 {
		first = nil // nil argument
	}
	want := first
	for i := 0; i < n; i++ {
		want = step(i, want)
	}
	var got any
	p := common.Catch(func() { got = composeA(fs)(first) })
	rec.Eval(fmt.Sprint("nil-any", n, arg, bits), true)
	rec.Count("function_applications_observed", int64(sum(calls)))
	if p != nil {
		rec.Violate(fmt.Sprintf("C20/Pipe%d/panic", n), fmt.Sprintf("stages over `any` with nil values (nil pattern %b): %v", bits, p), c)
	} else if got != want {
		rec.Violate(fmt.Sprintf("C20/Pipe%d/result", n), fmt.Sprintf("any-chain: got %v want %v", got, want), c)
	} else {
		for i, k := range calls {
			if k != 1 {
				rec.Violate(fmt.Sprintf("C20/Pipe%d/calls", n), fmt.Sprintf("any-chain: f_%d applied %d times", i+1, k), c)
			}
		}
	}
	if !heteroEnabled {
		return
	}
	// --- int -> error -> int -> ...: nil errors in the middle and as the final result
	calls2 := make([]int, n)
	ie := func(i, x int) error {
		calls2[i]++
		if bits>>uint(i)&1 == 1 {
			return nil
		}
		return &nilErr{x*7 + i}
	}
	ei := func(i int, e error) int {
		calls2[i]++
		if e == nil {
			return -i
		}
		return e.(*nilErr).tag + 1
	}
	var wantE any
	{
		x := arg
		var e error
		for i := 0; i < n; i++ {
			if i%2 == 0 {
				if bits>>uint(i)&1 == 1 {
					e = nil
				} else {
					e = &nilErr{x*7 + i}
				}
			} else {
				if e == nil {
					x = -i
				} else {
					x = e.(*nilErr).tag + 1
				}
			}
		}
		if n%2 == 1 {
			wantE = e
		} else {
			wantE = x
		}
	}
	var gotE any
	p = common.Catch(func() { gotE = composeE(n, ie, ei)(arg) })
	rec.Eval(fmt.Sprint("nil-err", n, arg, bits), true)
	rec.Count("function_applications_observed", int64(sum(calls2)))
	same := gotE == wantE
	if ge, ok := gotE.(error); ok && !same {
		if we, ok2 := wantE.(error); ok2 && ge != nil && we != nil {
			same = ge.Error() == we.Error()
		}
	}
	if gotE == nil && wantE != nil || gotE != nil && wantE == nil {
		// a nil error boxed in any: compare through the interface
		ge, _ := gotE.(error)
		we, _ := wantE.(error)
		same = ge == nil && we == nil
	}
	if p != nil {
		rec.Violate(fmt.Sprintf("C20/Pipe%d/panic", n), fmt.Sprintf("int/error chain with nil errors (pattern %b): %v", bits, p), c)
	} else if !same {
		rec.Violate(fmt.Sprintf("C20/Pipe%d/result", n), fmt.Sprintf("int/error chain: got %v want %v", gotE, wantE), c)
	} else {
		for i, k := range calls2 {
			if k != 1 {
				rec.Violate(fmt.Sprintf("C20/Pipe%d/calls", n), fmt.Sprintf("int/error chain: f_%d applied %d times", i+1, k), c)
			}
		}
	}
}

// a stage calls the composed function itself (re-entrancy): reference = the same recursion over a plain loop
func runRecursive(n int, arg uint64, coef []uint64, at int) {
	c := caseT{Family: "recursive", N: n, Arg: fmt.Sprint(arg, " recursive stage ", at), Coef: coef}
	build := func(self *func(uint64) uint64) []func(uint64) uint64 {
		fs := make([]func(uint64) uint64, n)
		depth := 0
		for i := range fs {
			i := i
			fs[i] = func(x uint64) uint64 {
				y := x*coef[2*i] + coef[2*i+1]
				if i == at && x%8 != 0 && depth < 3 {
					depth++
					y ^= (*self)(x % 4096) // re-enter the composed function (bounded depth)
					depth--
				}
				return y % 1000003
			}
		}
		return fs
	}
	var lib, ref func(uint64) uint64
	lib = composeI(build(&lib))
	rfs := build(&ref)
	ref = func(a uint64) uint64 {
		for _, f := range rfs {
			a = f(a)
		}
		return a
	}
	var got uint64
	p := common.Catch(func() { got = lib(arg) })
	want := ref(arg)
	rec.Eval(fmt.Sprint("rec", n, arg, at, coef[0]), true)
	if p != nil {
		rec.Violate(fmt.Sprintf("C20/Pipe%d/panic", n), fmt.Sprintf("recursive pipeline: %v", p), c)
	} else if got != want {
		rec.Violate(fmt.Sprintf("C20/Pipe%d/result", n), fmt.Sprintf("recursive pipeline (stage %d re-enters the composed function): got %d want %d", at+1, got, want), c)
	}
}

// composed functions as stages of other compositions: a function returned by PipeN is a function like any other.
// Pipes are built first, others of the same types are built in between, and only then are the stored ones put
// together (q = Pipe(p1, h), r = Pipe(p1, p2), s = Pipe(q, p2, ...)); every supplied function still runs once per call.
func runNested(n int, arg uint64, coef []uint64) {
	c := caseT{Family: "nested", N: n, Arg: fmt.Sprint(arg), Coef: coef}
	calls := map[string]int{}
	mk := func(tag string, k int) (fs []func(uint64) uint64, ref func(uint64) uint64) {
		for i := 0; i < k; i++ {
			i := i
			name := fmt.Sprint(tag, i)
			a, b := coef[(2*i)%len(coef)]+uint64(len(tag)*7), coef[(2*i+1)%len(coef)]^uint64(tag[0])
			fs = append(fs, func(x uint64) uint64 { calls[name]++; return x*a + b })
		}
		return fs, func(x uint64) uint64 {
			for i := 0; i < k; i++ {
				a, b := coef[(2*i)%len(coef)]+uint64(len(tag)*7), coef[(2*i+1)%len(coef)]^uint64(tag[0])
				x = x*a + b
			}
			return x
		}
	}
	k := 2 + n%4
	f1, r1 := mk("p", k)
	f2, r2 := mk("qq", k)
	f3, r3 := mk("rrr", 2)
	var p1, p2, p3, q, r, s func(uint64) uint64
	if pn := common.Catch(func() {
		p1 = composeI(f1)
		p2 = composeI(f2) // another composition of the same types, built after p1
		p3 = composeI(f3)
		q = composeI([]func(uint64) uint64{p1, f3[0]})
		r = composeI([]func(uint64) uint64{p1, p2})
		s = composeI([]func(uint64) uint64{composeI([]func(uint64) uint64{p2, p1}), p3, p1})
	}); pn != nil {
		rec.Violate(fmt.Sprintf("C20/Pipe%d/panic", n), fmt.Sprintf("nested compositions: %v", pn), c)
		return
	}
	rec.Eval(fmt.Sprint("nest", n, arg, coef[0]), true)
	f30 := func(x uint64) uint64 {
		return x*(coef[0]+uint64(3*7)) + (coef[1%len(coef)] ^ uint64('r'))
	}
	for _, t := range []struct {
		name string
		f    func(uint64) uint64
		want uint64
		uses map[string]int
	}{
		{"Pipe(p1, h)", q, f30(r1(arg)), map[string]int{"p": 1, "rrr0": 1}},
		{"Pipe(p1, p2)", r, r2(r1(arg)), map[string]int{"p": 1, "qq": 1}},
		{"Pipe(Pipe(p2, p1), p3, p1)", s, r1(r3(r1(r2(arg)))), map[string]int{"p": 2, "qq": 1, "rrr": 1}},
		{"p1 itself, afterwards", p1, r1(arg), map[string]int{"p": 1}},
	} {
		clear(calls)
		var got uint64
		if pn := common.Catch(func() { got = t.f(arg) }); pn != nil {
			rec.Violate(fmt.Sprintf("C20/Pipe%d/panic", n), fmt.Sprintf("%s: %v", t.name, pn), c)
			return
		}
		if got != t.want {
			rec.Violate(fmt.Sprintf("C20/Pipe%d/result", n), fmt.Sprintf("%s (compositions stored and put together later): got %d want %d; applications %v", t.name, got, t.want, calls), c)
			return
		}
		for name, cnt := range calls {
			tag := name[:len(name)-1]
			if w, ok := t.uses[name]; ok {
				if cnt != w {
					rec.Violate(fmt.Sprintf("C20/Pipe%d/calls", n), fmt.Sprintf("%s: %s applied %d times, want %d", t.name, name, cnt, w), c)
					return
				}
			} else if cnt != t.uses[tag] {
				rec.Violate(fmt.Sprintf("C20/Pipe%d/calls", n), fmt.Sprintf("%s: %s applied %d times, want %d", t.name, name, cnt, t.uses[tag]), c)
				return
			}
		}
		rec.Count("function_applications_observed", int64(len(calls)))
	}
}

// the composed function is a plain function value: concurrent calls must not disturb each other
func runConcurrent(n int, coef []uint64) {
	c := caseT{Family: "concurrent", N: n, Coef: coef}
	fs := make([]func(uint64) uint64, n)
	for i := range fs {
		i := i
		fs[i] = func(x uint64) uint64 {
			if i%3 == 1 {
				runtime.Gosched()
			}
			return x*coef[2*i] + coef[2*i+1]
		}
	}
	f := composeI(fs)
	var wg sync.WaitGroup
	var bad atomic.Int64
	for g := 0; g < 8; g++ {
		wg.Add(1)
		go func(g int) {
			defer wg.Done()
			defer func() {
				if recover() != nil {
					bad.Add(1)
				}
			}()
			for k := 0; k < 300; k++ {
				a := uint64(g*1000 + k)
				want := a
				for i := 0; i < n; i++ {
					want = want*coef[2*i] + coef[2*i+1]
				}
				if f(a) != want {
					bad.Add(1)
				}
			}
		}(g)
	}
	wg.Wait()
	rec.Eval(fmt.Sprint("conc", n, coef[0]), true)
	rec.Count("concurrent_calls", 8*300)
	if b := bad.Load(); b > 0 {
		rec.Violate(fmt.Sprintf("C20/Pipe%d/result", n), fmt.Sprintf("%d of 2400 concurrent calls of one composed function returned a wrong value", b), c)
	}
}

// runColdConcurrent: the very first evaluations of a freshly composed function come from several goroutines at the same
// moment (a pipeline stored in a package variable and first used by request handlers); many fresh pipelines per arity.
func runColdConcurrent(n int, coef []uint64, trials int) {
	c := caseT{Family: "cold-concurrent", N: n, Coef: coef}
	fs := make([]func(uint64) uint64, n)
	for i := range fs {
		i := i
		fs[i] = func(x uint64) uint64 { return x*coef[2*i] + coef[2*i+1] }
	}
	want := func(a uint64) uint64 {
		for i := 0; i < n; i++ {
			a = a*coef[2*i] + coef[2*i+1]
		}
		return a
	}
	var bad atomic.Int64
	var first atomic.Value
	for t := 0; t < trials && bad.Load() == 0; t++ {
		f := composeI(fs)
		start := make(chan struct{})
		var wg sync.WaitGroup
		for g := 0; g < 6; g++ {
			wg.Add(1)
			go func(g int) {
				defer wg.Done()
				defer func() {
					if p := recover(); p != nil {
						bad.Add(1)
						first.CompareAndSwap(nil, fmt.Sprintf("trial %d: panic %v", t, p))
					}
				}()
				<-start
				for k := 0; k < 3; k++ {
					a := uint64(t*100 + g*10 + k)
					if got := f(a); got != want(a) {
						bad.Add(1)
						first.CompareAndSwap(nil, fmt.Sprintf("trial %d: f(%d) = %d, want %d", t, a, got, want(a)))
					}
				}
			}(g)
		}
		close(start)
		wg.Wait()
		// and the pipeline is whole afterwards
		if got := f(7); got != want(7) {
			bad.Add(1)
			first.CompareAndSwap(nil, fmt.Sprintf("trial %d: sequential call after the concurrent first ones: f(7) = %d, want %d", t, got, want(7)))
		}
	}
	rec.Eval(fmt.Sprint("cold", n, coef[0]), true)
	rec.Count("concurrent_calls", int64(trials*18))
	if bad.Load() > 0 {
		rec.Violate(fmt.Sprintf("C20/Pipe%d/result", n), fmt.Sprintf("first evaluations of a freshly composed function by 6 goroutines at once: %v", first.Load()), c)
	}
}

func runTrace(n int, arg string) {
	c := caseT{Family: "trace", N: n, Arg: arg}
	calls := make([]int, n)
	seen := make([]string, n)
	fs := make([]func(string) string, n)
	for i := range fs {
		i := i
		fs[i] = func(s string) string { calls[i]++; seen[i] = s; return s + fmt.Sprintf("<%d>", i) }
	}
	var got string
	p := common.Catch(func() { got = composeS(fs)(arg) })
	want := arg
	for i := 0; i < n; i++ {
		if p == nil && seen[i] != want && calls[i] == 1 {
			rec.Violate(fmt.Sprintf("C20/Pipe%d/argument", n), fmt.Sprintf("f_%d received %q, previous result is %q", i+1, seen[i], want), c)
		}
		want += fmt.Sprintf("<%d>", i)
	}
	rec.Eval(fmt.Sprint("t", n, arg), true)
	rec.Count("function_applications_observed", int64(sum(calls)))
	if p != nil {
		rec.Violate(fmt.Sprintf("C20/Pipe%d/panic", n), fmt.Sprint(p), c)
		return
	}
	if got != want {
		rec.Violate(fmt.Sprintf("C20/Pipe%d/result", n), fmt.Sprintf("got %q want %q", got, want), c)
	}
	for i, k := range calls {
		if k != 1 {
			rec.Violate(fmt.Sprintf("C20/Pipe%d/calls", n), fmt.Sprintf("f_%d applied %d times (calls %v)", i+1, k, calls), c)
		}
	}
	if rec.WantSample() {
		rec.Sample(map[string]any{"family": "trace", "n": n, "arg": arg, "result": got, "calls": calls})
	}
	// the composed function is reusable: a second application behaves the same
	for i := range calls {
		calls[i] = 0
	}
	if g2 := composeS(fs)(arg + "!"); g2 != strings.Replace(want, arg, arg+"!", 1) && arg != "" {
		rec.Violate(fmt.Sprintf("C20/Pipe%d/reuse", n), fmt.Sprintf("second application got %q", g2), c)
	}
}

func runHetero(n int, arg string) {
	c := caseT{Family: "hetero", N: n, Arg: arg}
	calls := make([]int, n)
	hit := func(i int, in string) string { calls[i]++; return in + fmt.Sprintf("[%d]", i) }
	var got string
	p := common.Catch(func() { got = composeH(n, hit)(t0{arg}) })
	want := arg
	for i := 0; i < n; i++ {
		want += fmt.Sprintf("[%d]", i)
	}
	rec.Eval(fmt.Sprint("h", n, arg), true)
	rec.Count("function_applications_observed", int64(sum(calls)))
	if p != nil {
		rec.Violate(fmt.Sprintf("C20/Pipe%d/panic", n), fmt.Sprint(p), c)
		return
	}
	if got != want {
		rec.Violate(fmt.Sprintf("C20/Pipe%d/result", n), fmt.Sprintf("got %q want %q", got, want), c)
	}
	for i, k := range calls {
		if k != 1 {
			rec.Violate(fmt.Sprintf("C20/Pipe%d/calls", n), fmt.Sprintf("f_%d applied %d times (calls %v)", i+1, k, calls), c)
		}
	}
}

// runPanic: a supplied function panics at stage k; the caller recovers and goes on using pipes. The panic has to come
// through as it is (stages 1..k applied once, none after k), and later calls - of the same composed function and of
// a freshly composed one - are whole again.
func runPanic(n, k int, arg uint64, coef []uint64) {
	c := caseT{Family: fmt.Sprint("panic-at/", k), N: n, Arg: fmt.Sprint(arg), Coef: coef}
	calls := make([]int, n)
	armed := true
	fs := make([]func(uint64) uint64, n)
	for i := range fs {
		i := i
		fs[i] = func(x uint64) uint64 {
			calls[i]++
			if armed && i == k {
				panic(fmt.Sprintf("stage %d gives up", i))
			}
			return x*coef[2*i] + coef[2*i+1]
		}
	}
	want := func(a uint64) uint64 {
		for i := 0; i < n; i++ {
			a = a*coef[2*i] + coef[2*i+1]
		}
		return a
	}
	f := composeI(fs)
	rec.Eval(fmt.Sprint("p", n, k, arg), true)
	pn := common.Catch(func() { f(arg) })
	if s, ok := pn.(string); !ok || s != fmt.Sprintf("stage %d gives up", k) {
		rec.Violate(fmt.Sprintf("C20/Pipe%d/panic", n), fmt.Sprintf("f_%d panicked with its own value, the composed function %v", k+1, pn), c)
		return
	}
	for i, cnt := range calls {
		if (i <= k) != (cnt == 1) || cnt > 1 {
			rec.Violate(fmt.Sprintf("C20/Pipe%d/calls", n), fmt.Sprintf("f_%d panicked: calls %v, want one call for each of the first %d functions only", k+1, calls, k+1), c)
			return
		}
	}
	armed = false
	for round := 0; round < 4; round++ {
		for i := range calls {
			calls[i] = 0
		}
		g := f
		if round%2 == 1 {
			g = composeI(fs) // a pipe composed after the panic
		}
		a := arg + uint64(round)
		var got uint64
		if p2 := common.Catch(func() { got = g(a) }); p2 != nil || got != want(a) {
			rec.Violate(fmt.Sprintf("C20/Pipe%d/after-panic", n), fmt.Sprintf("call %d after f_%d had panicked once: got %d (panic %v), want %d; calls %v", round+1, k+1, got, p2, want(a), calls), c)
			return
		}
		for i, cnt := range calls {
			if cnt != 1 {
				rec.Violate(fmt.Sprintf("C20/Pipe%d/after-panic", n), fmt.Sprintf("call %d after f_%d had panicked once: f_%d applied %d times", round+1, k+1, i+1, cnt), c)
				return
			}
		}
	}
	rec.Count("function_applications_observed", int64(5*n))
}

// runRoundTrip: argument and result of the composed function have the same type while some stages go through
// another one (nothing in the statement singles such pipelines out)
func runRoundTrip(n, pat int, arg string) {
	c := caseT{Family: fmt.Sprint("round-trip/", pat), N: n, Arg: arg}
	calls := make([]int, n)
	hit := func(i int, in string) string { calls[i]++; return in + fmt.Sprintf("[%d]", i) }
	var got string
	p := common.Catch(func() { got = composeR(n, pat, hit)(ra{arg}) })
	want := arg
	for i := 0; i < n; i++ {
		want += fmt.Sprintf("[%d]", i)
	}
	rec.Eval(fmt.Sprint("r", n, pat, arg), true)
	rec.Count("function_applications_observed", int64(sum(calls)))
	if p != nil {
		rec.Violate(fmt.Sprintf("C20/Pipe%d/panic", n), fmt.Sprint(p), c)
		return
	}
	if got != want {
		rec.Violate(fmt.Sprintf("C20/Pipe%d/result", n), fmt.Sprintf("round trip (pattern %d): got %q want %q", pat, got, want), c)
	}
	for i, k := range calls {
		if k != 1 {
			rec.Violate(fmt.Sprintf("C20/Pipe%d/calls", n), fmt.Sprintf("round trip: f_%d applied %d times (calls %v)", i+1, k, calls), c)
		}
	}
}

// runZero: pipelines with zero-size argument, intermediate or result types (stages run for their effect). The same
// composed function is called several times: on every call every stage is applied once, in order.
func runZero(n, pat int, arg string) {
	c := caseT{Family: fmt.Sprint("zero-size/", pat), N: n, Arg: arg}
	calls := make([]int, n)
	var order []int
	hit := func(i int, in string) string { calls[i]++; order = append(order, i); return in + fmt.Sprintf("[%d]", i) }
	var f func(string) string
	if p := common.Catch(func() { f = composeZ(n, pat, hit) }); p != nil {
		rec.Violate(fmt.Sprintf("C20/Pipe%d/panic", n), fmt.Sprint(p), c)
		return
	}
	rec.Eval(fmt.Sprint("z", n, pat, arg), true)
	for call, a := range []string{arg, arg + "x", arg} {
		order = order[:0]
		var got string
		p := common.Catch(func() { got = f(a) })
		want := a
		for i := 0; i < n; i++ {
			want += fmt.Sprintf("[%d]", i)
		}
		rec.Count("function_applications_observed", int64(len(order)))
		if p != nil {
			rec.Violate(fmt.Sprintf("C20/Pipe%d/panic", n), fmt.Sprintf("call #%d: %v", call+1, p), c)
			return
		}
		what := []string{"zero-size argument type", "zero-size type between two stages", "zero-size types throughout", "zero-size result type"}[pat]
		if got != want {
			rec.Violate(fmt.Sprintf("C20/Pipe%d/result", n), fmt.Sprintf("%s, call #%d of the same composed function: got %q want %q; stages applied %v", what, call+1, got, want, order), c)
			return
		}
		for i, k := range calls {
			if k != call+1 {
				rec.Violate(fmt.Sprintf("C20/Pipe%d/calls", n), fmt.Sprintf("%s: after %d calls f_%d was applied %d times (stages applied by the last call: %v)", what, call+1, i+1, k, order), c)
				return
			}
		}
	}
}

func runAffine(n int, arg uint64, coef []uint64) {
	c := caseT{Family: "affine", N: n, Arg: fmt.Sprint(arg), Coef: coef}
	calls := make([]int, n)
	fs := make([]func(uint64) uint64, n)
	for i := range fs {
		i := i
		fs[i] = func(x uint64) uint64 { calls[i]++; return x*coef[2*i] + coef[2*i+1] }
	}
	var got uint64
	p := common.Catch(func() { got = composeI(fs)(arg) })
	want := arg
	for i := 0; i < n; i++ {
		want = want*coef[2*i] + coef[2*i+1]
	}
	rec.Eval(fmt.Sprint("a", n, arg, coef[0]), true)
	rec.Count("function_applications_observed", int64(sum(calls)))
	if p != nil {
		rec.Violate(fmt.Sprintf("C20/Pipe%d/panic", n), fmt.Sprint(p), c)
		return
	}
	if got != want {
		rec.Violate(fmt.Sprintf("C20/Pipe%d/result", n), fmt.Sprintf("affine: got %d want %d", got, want), c)
	}
	for i, k := range calls {
		if k != 1 {
			rec.Violate(fmt.Sprintf("C20/Pipe%d/calls", n), fmt.Sprintf("affine: f_%d applied %d times", i+1, k), c)
		}
	}
}

func sum(xs []int) (s int) {
	for _, x := range xs {
		s += x
	}
	return
}

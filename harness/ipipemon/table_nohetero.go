//go:build !hetero

package main

// the family with one distinct type per stage is compiled only with the build tag `hetero`; the driver
// falls back to this stub (and reports it) if that family no longer type-checks against the library.
const heteroEnabled = false

type t0 struct{ tr string }

func composeH(n int, hit func(i int, in string) string) func(t0) string { panic("hetero family not built") }

func composeE(n int, ie func(i int, x int) error, ei func(i int, e error) int) func(int) any { panic("hetero family not built") }

type ra struct{ tr string }

func composeR(n, pat int, hit func(i int, in string) string) func(ra) string { panic("hetero family not built") }

func composeZ(n, pat int, hit func(i int, in string) string) func(string) string { panic("hetero family not built") }

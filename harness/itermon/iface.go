package main

import (
	"errors"
	"fmt"

	"verif/harness/common"

	"github.com/fogfish/golem/trait/pair"
	"github.com/fogfish/golem/trait/seq"
)

// Sequences of an interface element type whose elements include the nil interface (a list of optional errors, a list
// of any). nil is an element like every other: From(nil) is the one-element list [nil], not the empty list.

func drainAny[T any](s seq.Seq[T]) (out []T) {
	for has := s != nil; has; has = s.Next() {
		out = append(out, s.Value())
	}
	return
}

func showList[T any](xs []T) string { return fmt.Sprintf("%#v", xs) }

func ifaceSeqs() {
	boom := errors.New("boom")
	c := caseT{Tree: &node{Op: "iface/nil-elements"}}
	rec.Begin("iface-nil-elements", c)
	defer rec.End("iface-nil-elements")
	check := func(name string, got, want []string) {
		rec.Eval("iface "+name, true)
		if fmt.Sprint(got) != fmt.Sprint(want) {
			rec.Violate(prop+"/iface/elements", fmt.Sprintf("%s over an interface element type with nil elements drains to %v, the list function gives %v", name, got, want), c)
		}
	}
	str := func(xs []error) (out []string) {
		for _, x := range xs {
			out = append(out, fmt.Sprint(x))
		}
		return
	}
	strA := func(xs []any) (out []string) {
		for _, x := range xs {
			out = append(out, fmt.Sprintf("%#v", x))
		}
		return
	}
	if p := common.Catch(func() {
		in := []error{boom, nil, boom, nil}
		check("From[error](nil)", str(drainAny(seq.From[error](nil))), []string{"<nil>"})
		check("From[any](nil)", strA(drainAny(seq.From[any](nil))), []string{"<nil>"})
		check("From[any](0)", strA(drainAny(seq.From[any](0))), []string{"0"})
		check("FromSlice(errors with nils)", str(drainAny(seq.FromSlice(in))), str(in))
		check("Plus(From(nil), FromSlice)", str(drainAny(seq.Plus(seq.From[error](nil), seq.FromSlice(in)))), append([]string{"<nil>"}, str(in)...))
		check("Plus(FromSlice, From(nil))", str(drainAny(seq.Plus(seq.FromSlice(in), seq.From[error](nil)))), append(str(in), "<nil>"))
		check("Join(FromSlice, e -> From(e))", str(drainAny(seq.Join(seq.FromSlice(in), func(e error) seq.Seq[error] { return seq.From(e) }))), str(in))
		check("Filter(is nil)", str(drainAny(seq.Filter(seq.FromSlice(in), func(e error) bool { return e == nil }))), []string{"<nil>", "<nil>"})
		check("TakeWhile(not nil)", str(drainAny(seq.TakeWhile(seq.FromSlice(in), func(e error) bool { return e != nil }))), []string{"boom"})
		check("DropWhile(not nil)", str(drainAny(seq.DropWhile(seq.FromSlice(in), func(e error) bool { return e != nil }))), []string{"<nil>", "boom", "<nil>"})
		check("Map(int -> error)", str(drainAny(seq.Map(seq.FromSlice([]int{1, 2, 3}), func(x int) error {
			if x == 2 {
				return nil
			}
			return boom
		}))), []string{"boom", "<nil>", "boom"})
		n := 0
		seq.ForEach(seq.Join(seq.FromSlice(in), func(e error) seq.Seq[error] { return seq.From(e) }), func(error) error { n++; return nil })
		check("ForEach over Join(e -> From(e))", []string{fmt.Sprint(n)}, []string{"4"})
		// pairs whose values are interfaces
		var ks []int
		var vs []string
		ps := pair.FromSeq(seq.FromSlice([]int{1, 2, 3}), func(x int) pair.Seq[int, error] {
			if x == 2 {
				return pair.From[int, error](x, nil)
			}
			return pair.From[int, error](x, boom)
		})
		for has := ps != nil; has; has = ps.Next() {
			ks = append(ks, ps.Key())
			vs = append(vs, fmt.Sprint(ps.Value()))
		}
		check("pair.FromSeq(x -> pair.From(x, nil or boom))", append([]string{fmt.Sprint(ks)}, vs...), []string{"[1 2 3]", "boom", "<nil>", "boom"})
	}); p != nil {
		rec.Violate(prop+"/iface/panic", fmt.Sprint("sequences over an interface element type with nil elements: ", p), c)
	}
}

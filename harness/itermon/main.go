// itermon — C14 / C15: expression trees over trait/seq and trait/pair are built
// with the real combinators (fresh leaves per evaluation, they are destructive),
// drained with the documented loop, and compared with an interpreter of the same
// tree over plain slices. Callbacks log the arguments they receive per tree node;
// everything the library hands to a callback must be something the strict list
// semantics hands to that callback (catches swapped / stale keys and values even
// when the final list is unaffected).
package main

import (
	"errors"
	"fmt"
	"slices"
	"strings"

	"verif/harness/common"

	"github.com/fogfish/golem/trait/pair"
	"github.com/fogfish/golem/trait/seq"
)

// ---------------------------------------------------------------- trees

type node struct {
	Op   string  `json:"op"`
	F    int     `json:"f,omitempty"`  // index into the function family of this op
	Xs   []int   `json:"xs,omitempty"` // leaf elements (slice) / [v] (from) / [k,v] (pfrom)
	Kids []*node `json:"kids,omitempty"`
	id   int
}

type kv struct{ K, V int }

func mix(a, b, k int) uint64 {
	x := uint64(a)*0x9E3779B97F4A7C15 ^ (uint64(b)+0x51)*0xC2B2AE3D27D4EB4F ^ uint64(k)*0x165667B19E3779F9
	x ^= x >> 29
	x *= 0xBF58476D1CE4E5B9
	x ^= x >> 32
	return x
}

// function families (indexed, so trees are data)
const (
	nPred  = 9
	nMap   = 3
	nJoin  = 10
	nPPred = 9
	nPMap  = 3
	nPJoin = 8
	nToSeq = 9
	nFromS = 7
)

// raw material of the "derived inner sequence" families: the flat-map function returns TakeWhile / Filter / Map
// over this slice (nil for some arguments, and not prefix-closed for the predicate v < 500)
func rawInner(x int) []int {
	switch x % 4 {
	case 0:
		return nil
	case 1:
		return []int{x % 400, 600 + x%300, (x + 1) % 400}
	case 2:
		return []int{700, x % 400}
	}
	return []int{x % 400, (x + 2) % 400, 800, (x + 3) % 400, 900}
}
func small(v int) bool { return v < 500 }
func takeWhileList(xs []int, p func(int) bool) []int {
	var out []int
	for _, v := range xs {
		if !p(v) {
			break
		}
		out = append(out, v)
	}
	return out
}
func filterList(xs []int, p func(int) bool) []int {
	var out []int
	for _, v := range xs {
		if p(v) {
			out = append(out, v)
		}
	}
	return out
}

func pred(f, x int) bool {
	switch f {
	case 0:
		return true
	case 1:
		return false
	case 2:
		return x%2 == 0
	case 3:
		return x%10 < 5
	case 4:
		return mix(x, 0, 4)&1 == 1
	case 5:
		return mix(x, 0, 5)%4 != 0 // mostly true
	default:
		return mix(x, 0, 6)%4 == 0 // mostly false
	}
}

// mkPred: one predicate instance per tree node and evaluation. Families 7 and 8 have memory (first occurrence of a
// residue class, every third call): their answer depends on what they were asked before, so list semantics is the
// sequential evaluation, once per element of the node's input, in order - which is what a filter over a list does.
func mkPred(f int) func(int) bool {
	switch f {
	case 7:
		seen := map[int]bool{}
		return func(x int) bool {
			k := x % 5
			if seen[k] {
				return false
			}
			seen[k] = true
			return true
		}
	case 8:
		n := 0
		return func(x int) bool { n++; return n%3 != 0 }
	}
	return func(x int) bool { return pred(f, x) }
}

func mkPPred(f int) func(int, int) bool {
	switch f {
	case 7:
		seen := map[int]bool{}
		return func(k, v int) bool {
			c := v % 4
			if seen[c] {
				return false
			}
			seen[c] = true
			return true
		}
	case 8:
		n := 0
		return func(k, v int) bool { n++; return n%3 != 1 }
	}
	return func(k, v int) bool { return ppred(f, k, v) }
}

func mapf(f, x int) int {
	switch f {
	case 0:
		return (x*3 + 1) % 997
	case 1:
		return (x + 7) % 997
	default:
		return x / 2 // not injective: neighbours collapse
	}
}

// joinf: list semantics of the flat-map function
func joinf(f, x int) []int {
	switch f {
	case 0:
		return nil
	case 1:
		return []int{(x + 1) % 997}
	case 2:
		return []int{x, (x + 1) % 997}[:x%3] // length 0..2 depending on x
	case 3:
		if x%3 == 0 {
			return nil
		}
		return []int{x, x}
	case 4:
		return []int{(x * 5) % 997, (x*5 + 1) % 997, (x*5 + 2) % 997}
	case 5: // built as TakeWhile(FromSlice(raw), small)
		return takeWhileList(rawInner(x), small)
	case 6: // built as Filter(FromSlice(raw), small)
		return filterList(rawInner(x), small)
	case 8: // built as a Join of its own: Join(FromSlice(raw), y -> joinf(3, y)), whose trailing elements may join to nil
		var out []int
		for _, y := range rawInner(x) {
			out = append(out, joinf(3, y)...)
		}
		return out
	case 9: // built as Plus(FromSlice(joinf(2, x)), DropWhile(FromSlice(raw), small))
		out := append([]int{}, joinf(2, x)...)
		raw := rawInner(x)
		i := 0
		for i < len(raw) && small(raw[i]) {
			i++
		}
		return append(out, raw[i:]...)
	default: // built as Map(TakeWhile(FromSlice(raw), small), +1)
		out := takeWhileList(rawInner(x), small)
		for i := range out {
			out[i]++
		}
		return out
	}
}
func ppred(f, k, v int) bool {
	switch f {
	case 0:
		return true
	case 1:
		return false
	case 2:
		return k%2 == 0
	case 3:
		return v%2 == 0
	case 4:
		return mix(k, v, 4)&1 == 1
	case 5:
		return mix(k, v, 5)%4 != 0
	default:
		return k%10 < 5
	}
}
func pmapf(f, k, v int) int {
	switch f {
	case 0:
		return (v*3 + k) % 997
	case 1:
		return (v + 7) % 997
	default:
		return int(mix(k, v, 2) % 997)
	}
}
func pjoinf(f, k, v int) []kv {
	switch f {
	case 0:
		return nil
	case 1:
		return []kv{{k + 1, (v * 2) % 997}}
	case 2:
		if (k+v)%3 == 0 {
			return nil
		}
		return []kv{{k, v}, {k + 500, (v + 1) % 997}}
	case 3:
		return []kv{{2000 + v, k % 997}} // deliberately crosses key and value
	case 4:
		return []kv{{k, v}, {k, (v + 1) % 997}, {k + 1, (v + 2) % 997}}[:int(mix(k, v, 9)%4)]
	case 5: // built as pair.TakeWhile(pairs, value < 500)
		var out []kv
		for _, p := range innerPairs(k + v) {
			if p.V >= 500 {
				break
			}
			out = append(out, p)
		}
		return out
	case 7: // built as a pair.Join of its own over the inner pairs, each joined by family 2 (nil for some)
		var out []kv
		for _, p := range innerPairs(k + v) {
			out = append(out, pjoinf(2, p.K, p.V)...)
		}
		return out
	default: // built as pair.Filter(pairs, value < 500)
		var out []kv
		for _, p := range innerPairs(k + v) {
			if p.V < 500 {
				out = append(out, p)
			}
		}
		return out
	}
}
func toseqf(f, k, v int) []int {
	switch f {
	case 0:
		return nil
	case 1:
		return []int{v}
	case 2:
		return []int{k % 997, v}
	case 3:
		if v%2 == 0 {
			return nil
		}
		return []int{v, (v + 1) % 997}
	case 4:
		return []int{int(mix(k, v, 3) % 997)}
	case 5:
		return takeWhileList(rawInner(k+v), small)
	case 7: // built as seq.Join(FromSlice(raw), y -> joinf(3, y))
		var out []int
		for _, y := range rawInner(k + v) {
			out = append(out, joinf(3, y)...)
		}
		return out
	case 8: // built as a pair.ToSeq of its own over the inner pairs, each joined by family 3 (nil for even values)
		var out []int
		for _, p := range innerPairs(k + v) {
			out = append(out, toseqf(3, p.K, p.V)...)
		}
		return out
	default:
		return filterList(rawInner(k+v), small)
	}
}
func fromseqf(f, x int) []kv {
	switch f {
	case 0:
		return nil
	case 1:
		return []kv{{1000 + x, x}}
	case 2:
		if x%3 == 1 {
			return nil
		}
		return []kv{{1000 + x, x}, {1500 + x, (x + 1) % 997}}
	case 3:
		return []kv{{3000 + x%7, (x * 11) % 997}}
	case 4:
		var out []kv
		for _, p := range innerPairs(x) {
			if p.V >= 500 {
				break
			}
			out = append(out, p)
		}
		return out
	case 6: // built as a pair.FromSeq of its own: FromSeq(FromSlice(raw), y -> fromseqf(2, y))
		var out []kv
		for _, y := range rawInner(x) {
			out = append(out, fromseqf(2, y)...)
		}
		return out
	default:
		var out []kv
		for _, p := range innerPairs(x) {
			if p.V < 500 {
				out = append(out, p)
			}
		}
		return out
	}
}

// ---------------------------------------------------------------- argument logs

type argset map[[3]int]struct{} // (node id, a, b)

type evalCtx struct {
	log argset
}

func (e *evalCtx) see(id, a, b int) { e.log[[3]int{id, a, b}] = struct{}{} }

// ---------------------------------------------------------------- oracle (strict lists)

func isLeafOp(op string) bool {
	switch op {
	case "from", "slice", "pfrom", "fromshared", "pfromshared":
		return true
	}
	return false
}

func isP(op string) bool {
	switch op {
	case "pfrom", "pfromshared", "ptakewhile", "pdropwhile", "pfilter", "pmap", "pplus", "pjoin", "fromseq":
		return true
	}
	return false
}

func (e *evalCtx) listS(n *node) []int {
	switch n.Op {
	case "from", "fromshared":
		return []int{n.Xs[0]}
	case "slice":
		return slices.Clone(n.Xs)
	case "takewhile":
		in := e.listS(n.Kids[0])
		var out []int
		p := mkPred(n.F)
		for i, x := range in {
			e.see(n.id, x, 0)
			if !p(x) {
				_ = i
				break
			}
			out = append(out, x)
		}
		// strict semantics may evaluate the predicate on every element: allow it
		for _, x := range in {
			e.see(n.id, x, 0)
		}
		return out
	case "dropwhile":
		in := e.listS(n.Kids[0])
		for _, x := range in {
			e.see(n.id, x, 0)
		}
		i := 0
		p := mkPred(n.F)
		for i < len(in) && p(in[i]) {
			i++
		}
		return slices.Clone(in[i:])
	case "filter":
		in := e.listS(n.Kids[0])
		var out []int
		p := mkPred(n.F)
		for _, x := range in {
			e.see(n.id, x, 0)
			if p(x) {
				out = append(out, x)
			}
		}
		return out
	case "map":
		in := e.listS(n.Kids[0])
		out := make([]int, 0, len(in))
		for _, x := range in {
			e.see(n.id, x, 0)
			out = append(out, mapf(n.F, x))
		}
		return out
	case "plus":
		return append(e.listS(n.Kids[0]), e.listS(n.Kids[1])...)
	case "join":
		in := e.listS(n.Kids[0])
		var out []int
		for _, x := range in {
			e.see(n.id, x, 0)
			out = append(out, joinf(n.F, x)...)
		}
		return out
	case "toseq":
		in := e.listP(n.Kids[0])
		var out []int
		for _, p := range in {
			e.see(n.id, p.K, p.V)
			out = append(out, toseqf(n.F, p.K, p.V)...)
		}
		return out
	}
	panic("listS " + n.Op)
}

func (e *evalCtx) listP(n *node) []kv {
	switch n.Op {
	case "pfrom", "pfromshared":
		return []kv{{n.Xs[0], n.Xs[1]}}
	case "ptakewhile":
		in := e.listP(n.Kids[0])
		for _, p := range in {
			e.see(n.id, p.K, p.V)
		}
		i := 0
		p := mkPPred(n.F)
		for i < len(in) && p(in[i].K, in[i].V) {
			i++
		}
		return slices.Clone(in[:i])
	case "pdropwhile":
		in := e.listP(n.Kids[0])
		for _, p := range in {
			e.see(n.id, p.K, p.V)
		}
		i := 0
		p := mkPPred(n.F)
		for i < len(in) && p(in[i].K, in[i].V) {
			i++
		}
		return slices.Clone(in[i:])
	case "pfilter":
		in := e.listP(n.Kids[0])
		var out []kv
		pp := mkPPred(n.F)
		for _, p := range in {
			e.see(n.id, p.K, p.V)
			if pp(p.K, p.V) {
				out = append(out, p)
			}
		}
		return out
	case "pmap":
		in := e.listP(n.Kids[0])
		out := make([]kv, 0, len(in))
		for _, p := range in {
			e.see(n.id, p.K, p.V)
			out = append(out, kv{p.K, pmapf(n.F, p.K, p.V)})
		}
		return out
	case "pplus":
		return append(e.listP(n.Kids[0]), e.listP(n.Kids[1])...)
	case "pjoin":
		in := e.listP(n.Kids[0])
		var out []kv
		for _, p := range in {
			e.see(n.id, p.K, p.V)
			out = append(out, pjoinf(n.F, p.K, p.V)...)
		}
		return out
	case "fromseq":
		in := e.listS(n.Kids[0])
		var out []kv
		for _, x := range in {
			e.see(n.id, x, 0)
			out = append(out, fromseqf(n.F, x)...)
		}
		return out
	}
	panic("listP " + n.Op)
}

// ---------------------------------------------------------------- the real thing

func sliceSeq(xs []int) seq.Seq[int] { return seq.FromSlice(slices.Clone(xs)) }

// innerSeq builds what the flat-map function of family f returns for x
func innerSeq(f, x int) seq.Seq[int] {
	switch f {
	case 5:
		return seq.TakeWhile(sliceSeq(rawInner(x)), small)
	case 6:
		return seq.Filter(sliceSeq(rawInner(x)), small)
	case 7:
		return seq.Map(seq.TakeWhile(sliceSeq(rawInner(x)), small), func(v int) int { return v + 1 })
	case 8:
		return seq.Join(sliceSeq(rawInner(x)), func(y int) seq.Seq[int] { return sliceSeq(joinf(3, y)) })
	case 9:
		return seq.Plus(sliceSeq(joinf(2, x)), seq.DropWhile(sliceSeq(rawInner(x)), small))
	}
	return sliceSeq(joinf(f, x))
}

func innerPairs(x int) []kv {
	raw := rawInner(x)
	out := make([]kv, len(raw))
	for i, v := range raw {
		out[i] = kv{2000 + i, v}
	}
	return out
}
func ksmall(_ int, v int) bool { return v < 500 }

func pairSeq(ps []kv) pair.Seq[int, int] {
	var s pair.Seq[int, int]
	for _, p := range ps {
		s = pair.Plus(s, pair.From(p.K, p.V))
	}
	return s
}

type leafRef struct {
	given []int // what the harness passed (possibly with spare capacity behind it)
	orig  []int // copy of the whole backing array, taken before
}

type buildCtx struct {
	stopped   bool     // the ForEach visitor has returned its error
	afterStop [][3]int // callbacks of the expression invoked after that
	log       argset
	leaves    []leafRef
	calls     int
	budget    int
}

type runaway struct{ calls int }

// see logs a callback invocation. A logical step budget (not a clock) decides
// "the library loops forever": list semantics needs a bounded number of
// callback invocations for the tree at hand.
func (b *buildCtx) see(id, x, y int) {
	if b.stopped {
		b.afterStop = append(b.afterStop, [3]int{id, x, y})
	}
	b.log[[3]int{id, x, y}] = struct{}{}
	b.calls++
	if b.budget > 0 && b.calls > b.budget {
		panic(runaway{b.calls})
	}
}

// A value returned by From is immutable (it denotes the one-element list wherever it stands), so a program may lift a
// separator or a default once and use it in many places and many expressions. "fromshared" / "pfromshared" leaves take
// their value from a process-wide table: one From call per distinct element for the whole run.
var (
	sharedFrom  = map[int]seq.Seq[int]{}
	sharedPFrom = map[[2]int]pair.Seq[int, int]{}
)

func (b *buildCtx) buildS(n *node) seq.Seq[int] {
	switch n.Op {
	case "fromshared":
		s, ok := sharedFrom[n.Xs[0]]
		if !ok {
			s = seq.From(n.Xs[0])
			sharedFrom[n.Xs[0]] = s
		}
		return s
	case "from":
		return seq.From(n.Xs[0])
	case "slice":
		var given []int
		if n.Xs != nil {
			given = slices.Clone(n.Xs)
			if k := len(n.Xs)*7 + n.id; k%3 == 0 {
				// a view with spare capacity: the caller's data continues behind len (sentinels 9001...)
				back := make([]int, len(n.Xs), len(n.Xs)+3)
				copy(back, n.Xs)
				full := back[:cap(back)]
				for i := len(n.Xs); i < len(full); i++ {
					full[i] = 9001 + i
				}
				given = back
			}
		}
		b.leaves = append(b.leaves, leafRef{given: given, orig: slices.Clone(given[:cap(given)])})
		return seq.FromSlice(given)
	case "takewhile":
		p := mkPred(n.F)
		return seq.TakeWhile(b.buildS(n.Kids[0]), func(x int) bool { b.see(n.id, x, 0); return p(x) })
	case "dropwhile":
		p := mkPred(n.F)
		return seq.DropWhile(b.buildS(n.Kids[0]), func(x int) bool { b.see(n.id, x, 0); return p(x) })
	case "filter":
		p := mkPred(n.F)
		return seq.Filter(b.buildS(n.Kids[0]), func(x int) bool { b.see(n.id, x, 0); return p(x) })
	case "map":
		return seq.Map(b.buildS(n.Kids[0]), func(x int) int { b.see(n.id, x, 0); return mapf(n.F, x) })
	case "plus":
		l := b.buildS(n.Kids[0])
		r := b.buildS(n.Kids[1])
		return seq.Plus(l, r)
	case "join":
		return seq.Join(b.buildS(n.Kids[0]), func(x int) seq.Seq[int] { b.see(n.id, x, 0); return innerSeq(n.F, x) })
	case "toseq":
		return pair.ToSeq(b.buildP(n.Kids[0]), func(k, v int) seq.Seq[int] {
			b.see(n.id, k, v)
			switch n.F {
			case 5:
				return seq.TakeWhile(sliceSeq(rawInner(k+v)), small)
			case 6:
				return seq.Filter(sliceSeq(rawInner(k+v)), small)
			case 7:
				return seq.Join(sliceSeq(rawInner(k+v)), func(y int) seq.Seq[int] { return sliceSeq(joinf(3, y)) })
			case 8:
				return pair.ToSeq(pairSeq(innerPairs(k+v)), func(k2, v2 int) seq.Seq[int] { return sliceSeq(toseqf(3, k2, v2)) })
			}
			return sliceSeq(toseqf(n.F, k, v))
		})
	}
	panic("buildS " + n.Op)
}

func (b *buildCtx) buildP(n *node) pair.Seq[int, int] {
	switch n.Op {
	case "pfromshared":
		k := [2]int{n.Xs[0], n.Xs[1]}
		s, ok := sharedPFrom[k]
		if !ok {
			s = pair.From(n.Xs[0], n.Xs[1])
			sharedPFrom[k] = s
		}
		return s
	case "pfrom":
		return pair.From(n.Xs[0], n.Xs[1])
	case "ptakewhile":
		p := mkPPred(n.F)
		return pair.TakeWhile(b.buildP(n.Kids[0]), func(k, v int) bool { b.see(n.id, k, v); return p(k, v) })
	case "pdropwhile":
		p := mkPPred(n.F)
		return pair.DropWhile(b.buildP(n.Kids[0]), func(k, v int) bool { b.see(n.id, k, v); return p(k, v) })
	case "pfilter":
		p := mkPPred(n.F)
		return pair.Filter(b.buildP(n.Kids[0]), func(k, v int) bool { b.see(n.id, k, v); return p(k, v) })
	case "pmap":
		return pair.Map(b.buildP(n.Kids[0]), func(k, v int) int { b.see(n.id, k, v); return pmapf(n.F, k, v) })
	case "pplus":
		l := b.buildP(n.Kids[0])
		r := b.buildP(n.Kids[1])
		return pair.Plus(l, r)
	case "pjoin":
		return pair.Join(b.buildP(n.Kids[0]), func(k, v int) pair.Seq[int, int] {
			b.see(n.id, k, v)
			switch n.F {
			case 5:
				return pair.TakeWhile(pairSeq(innerPairs(k+v)), ksmall)
			case 6:
				return pair.Filter(pairSeq(innerPairs(k+v)), ksmall)
			case 7:
				return pair.Join(pairSeq(innerPairs(k+v)), func(k2, v2 int) pair.Seq[int, int] { return pairSeq(pjoinf(2, k2, v2)) })
			}
			return pairSeq(pjoinf(n.F, k, v))
		})
	case "fromseq":
		return pair.FromSeq(b.buildS(n.Kids[0]), func(x int) pair.Seq[int, int] {
			b.see(n.id, x, 0)
			switch n.F {
			case 4:
				return pair.TakeWhile(pairSeq(innerPairs(x)), ksmall)
			case 5:
				return pair.Filter(pairSeq(innerPairs(x)), ksmall)
			case 6:
				return pair.FromSeq(sliceSeq(rawInner(x)), func(y int) pair.Seq[int, int] { return pairSeq(fromseqf(2, y)) })
			}
			return pairSeq(fromseqf(n.F, x))
		})
	}
	panic("buildP " + n.Op)
}

func number(n *node, next *int) {
	n.id = *next
	*next++
	for _, k := range n.Kids {
		number(k, next)
	}
}

func depthOf(n *node) int {
	d := 0
	for _, k := range n.Kids {
		d = max(d, depthOf(k))
	}
	return d + 1
}

func countNodes(n *node) int {
	c := 1
	for _, k := range n.Kids {
		c += countNodes(k)
	}
	return c
}

// ---------------------------------------------------------------- one case

type caseT struct {
	Tree *node `json:"tree"`
}

var (
	rec  *common.Recorder
	prop string
)

const drainLimit = 100000

func runTree(t *node) {
	c := caseT{Tree: t}
	id := common.ID(jsonTree(t))
	rec.Begin(id, c)
	defer rec.End(id)
	nx := 0
	number(t, &nx)
	site := prop + "/" + t.Op + "/"
	or := &evalCtx{log: argset{}}
	var wantS []int
	var wantP []kv
	p := isP(t.Op)
	if p {
		wantP = or.listP(t)
	} else {
		wantS = or.listS(t)
	}
	n := len(wantS) + len(wantP)
	budget := 1000 + 50*countNodes(t)*(len(or.log)+n+1)

	checkArgs := func(b *buildCtx, what string) bool {
		for a := range b.log {
			if _, ok := or.log[a]; !ok {
				rec.Violate(site+"callback-args", fmt.Sprintf("%s: callback of node #%d received (%d,%d), which list semantics never passes to it", what, a[0], a[1], a[2]), c)
				return false
			}
		}
		for _, l := range b.leaves {
			if !slices.Equal(l.given[:cap(l.given)], l.orig) {
				rec.Violate(site+"source-modified", fmt.Sprintf("%s: source slice (whole backing array) %v became %v", what, l.orig, l.given[:cap(l.given)]), c)
				return false
			}
		}
		return true
	}

	// 1. the documented drain loop
	b := &buildCtx{log: argset{}, budget: budget}
	var gotS []int
	var gotP []kv
	over := false
	if pn := common.Catch(func() {
		if p {
			s := b.buildP(t)
			for has := s != nil; has; has = s.Next() {
				gotP = append(gotP, kv{s.Key(), s.Value()})
				if len(gotP) > n+8 {
					over = true
					break
				}
			}
		} else {
			s := b.buildS(t)
			for has := s != nil; has; has = s.Next() {
				gotS = append(gotS, s.Value())
				if len(gotS) > n+8 {
					over = true
					break
				}
			}
		}
	}); pn != nil {
		rec.Violate(site+"panic", fmt.Sprintf("drain panicked: %v (list semantics gives %v%v)", pn, wantS, wantP), c)
		rec.Eval(fmt.Sprint(jsonTree(t)), n > 0)
		return
	}
	if over || !slices.Equal(gotS, wantS) || !slices.Equal(gotP, wantP) {
		rec.Violate(site+"elements", fmt.Sprintf("drained %v%v, list semantics gives %v%v", gotS, gotP, wantS, wantP), c)
	} else {
		checkArgs(b, "drain")
	}
	rec.Count("elements_drained", int64(len(gotS)+len(gotP)))

	// 1b. a larger expression is built on top of this one and thrown away undrained: Plus (on either side) and Map
	// need not look at their operand to be built, so the expression itself still drains to its own list
	{
		b := &buildCtx{log: argset{}, budget: budget}
		var g2S []int
		var g2P []kv
		if pn := common.Catch(func() {
			if p {
				s := b.buildP(t)
				_ = pair.Plus(s, pair.From(1777, 777))
				_ = pair.Plus(pair.From(1778, 778), s)
				_ = pair.Map(s, func(k, v int) int { return v })
				for has := s != nil; has && len(g2P) <= n+8; has = s.Next() {
					g2P = append(g2P, kv{s.Key(), s.Value()})
				}
			} else {
				s := b.buildS(t)
				_ = seq.Plus(s, seq.From(777))
				_ = seq.Plus(seq.From(778), s)
				_ = seq.Plus(s, seq.FromSlice([]int{779, 780}))
				_ = seq.Map(s, func(x int) int { return x })
				for has := s != nil; has && len(g2S) <= n+8; has = s.Next() {
					g2S = append(g2S, s.Value())
				}
			}
		}); pn != nil {
			rec.Violate(site+"operand-of-discarded/panic", fmt.Sprintf("drain after the expression was used as an operand of discarded Plus/Map expressions panicked: %v", pn), c)
		} else if !slices.Equal(g2S, wantS) || !slices.Equal(g2P, wantP) {
			rec.Violate(site+"operand-of-discarded", fmt.Sprintf("after the expression was used as an operand of Plus/Map expressions that were never drained it drains to %v%v, list semantics gives %v%v", g2S, g2P, wantS, wantP), c)
		}
	}

	// 2. ForEach with the visitor failing at position j (j = n: never fails)
	js := []int{n}
	if n > 0 {
		js = append(js, 0, n-1, n/2)
	}
	for _, j := range js {
		b := &buildCtx{log: argset{}, budget: budget}
		var visS []int
		var visP []kv
		boom := errors.New("stop")
		var err error
		if pn := common.Catch(func() {
			if p {
				err = pair.ForEach(b.buildP(t), func(k, v int) error {
					visP = append(visP, kv{k, v})
					if len(visP) == j+1 {
						b.stopped = true
						return boom
					}
					if len(visP) > n+8 {
						return errors.New("runaway")
					}
					return nil
				})
			} else {
				err = seq.ForEach(b.buildS(t), func(x int) error {
					visS = append(visS, x)
					if len(visS) == j+1 {
						b.stopped = true
						return boom
					}
					if len(visS) > n+8 {
						return errors.New("runaway")
					}
					return nil
				})
			}
		}); pn != nil {
			rec.Violate(site+"foreach/panic", fmt.Sprintf("ForEach panicked: %v", pn), c)
			break
		}
		upto := min(j+1, n)
		var wantErr error
		if j < n {
			wantErr = boom
		}
		if err != wantErr || !slices.Equal(visS, wantS[:min(upto, len(wantS))]) || !slices.Equal(visP, wantP[:min(upto, len(wantP))]) {
			rec.Violate(site+"foreach", fmt.Sprintf("visitor failing at visit %d: visited %v%v err=%v; want prefix of length %d of %v%v err=%v", j, visS, visP, err, upto, wantS, wantP, wantErr), c)
			break
		}
		if len(b.afterStop) > 0 {
			a := b.afterStop[0]
			rec.Violate(site+"foreach/continues", fmt.Sprintf("visitor failed at visit %d, yet ForEach went on evaluating the expression: callback of node #%d was invoked with (%d,%d) after the error was returned", j, a[0], a[1], a[2]), c)
			break
		}
		checkArgs(b, "ForEach")
		rec.Count("foreach_runs", 1)
	}
	rec.Eval(jsonTree(t), n > 0 && countNodes(t) >= 2)
	rec.Max("max_tree_depth", int64(depthOf(t)))
	if rec.WantSample() {
		if p {
			rec.Sample(map[string]any{"tree": t, "drained": gotP})
		} else {
			rec.Sample(map[string]any{"tree": t, "drained": gotS})
		}
	}
}

func jsonTree(n *node) string {
	s := n.Op + fmt.Sprint(n.F, n.Xs) + "("
	for _, k := range n.Kids {
		s += jsonTree(k) + ","
	}
	return s + ")"
}

// ---------------------------------------------------------------- generation

type alphabet struct {
	preds, maps, joins, ppreds, pmaps, pjoins, toseqs, fromseqs []int
	leaves                                                      int // number of S leaf shapes
}

// leaves get fresh distinct values from a counter so equal elements never hide a slip
func sLeaves(a alphabet, next *int) []*node {
	v := *next
	*next += 16
	all := []*node{
		{Op: "slice"},                                 // nil slice
		{Op: "from", Xs: []int{v}},                    // single element
		{Op: "slice", Xs: []int{v + 1, v + 2, v + 3}}, // three
		{Op: "slice", Xs: []int{v + 4}},               // singleton slice
		{Op: "slice", Xs: []int{}},                    // empty non-nil slice
		{Op: "slice", Xs: []int{v + 5, v + 6, v + 7, v + 8, v + 9, v + 10}},
	}
	return all[:a.leaves]
}

func pLeaves(next *int) []*node {
	v := *next
	*next += 4
	return []*node{{Op: "pfrom", Xs: []int{1000 + v, v}}}
}

func clone(n *node) *node {
	m := *n
	m.Kids = make([]*node, len(n.Kids))
	for i, k := range n.Kids {
		m.Kids[i] = clone(k)
	}
	return &m
}

// all S-trees of depth <= d (C14 alphabet only when !pairs)
func enumS(a alphabet, d int, pairs bool, emit func(*node)) {
	next := 10
	var genS func(d int) []*node
	var genP func(d int) []*node
	memoS := map[int][]*node{}
	memoP := map[int][]*node{}
	genS = func(d int) []*node {
		if r, ok := memoS[d]; ok {
			return r
		}
		out := sLeaves(a, &next)
		if d > 1 {
			sub := genS(d - 1)
			for _, k := range sub {
				for _, f := range a.preds {
					out = append(out, &node{Op: "takewhile", F: f, Kids: []*node{k}}, &node{Op: "dropwhile", F: f, Kids: []*node{k}}, &node{Op: "filter", F: f, Kids: []*node{k}})
				}
				for _, f := range a.maps {
					out = append(out, &node{Op: "map", F: f, Kids: []*node{k}})
				}
				for _, f := range a.joins {
					out = append(out, &node{Op: "join", F: f, Kids: []*node{k}})
				}
			}
			for _, l := range sub {
				for _, r := range sub {
					out = append(out, &node{Op: "plus", Kids: []*node{l, r}})
				}
			}
			if pairs {
				for _, k := range genP(d - 1) {
					for _, f := range a.toseqs {
						out = append(out, &node{Op: "toseq", F: f, Kids: []*node{k}})
					}
				}
			}
		}
		memoS[d] = out
		return out
	}
	genP = func(d int) []*node {
		if r, ok := memoP[d]; ok {
			return r
		}
		out := pLeaves(&next)
		if d > 1 {
			sub := genP(d - 1)
			for _, k := range sub {
				for _, f := range a.ppreds {
					out = append(out, &node{Op: "ptakewhile", F: f, Kids: []*node{k}}, &node{Op: "pdropwhile", F: f, Kids: []*node{k}}, &node{Op: "pfilter", F: f, Kids: []*node{k}})
				}
				for _, f := range a.pmaps {
					out = append(out, &node{Op: "pmap", F: f, Kids: []*node{k}})
				}
				for _, f := range a.pjoins {
					out = append(out, &node{Op: "pjoin", F: f, Kids: []*node{k}})
				}
			}
			for _, l := range sub {
				for _, r := range sub {
					out = append(out, &node{Op: "pplus", Kids: []*node{l, r}})
				}
			}
			for _, k := range genS(d - 1) {
				for _, f := range a.fromseqs {
					out = append(out, &node{Op: "fromseq", F: f, Kids: []*node{k}})
				}
			}
		}
		memoP[d] = out
		return out
	}
	for _, t := range genS(d) {
		emit(clone(t))
	}
	if pairs {
		for _, t := range genP(d) {
			emit(clone(t))
		}
	}
}

type rnd interface{ IntN(int) int }

func randS(r rnd, d int, pairs bool, next *int) *node {
	if d <= 1 || r.IntN(6) == 0 {
		k := r.IntN(8)
		switch {
		case k == 0:
			return &node{Op: "slice"}
		case k == 1:
			*next++
			return &node{Op: "from", Xs: []int{*next}}
		case k == 2 && r.IntN(2) == 0:
			return &node{Op: "fromshared", Xs: []int{900 + r.IntN(3)}} // one of three separators lifted once for the whole run
		default:
			n := r.IntN(9)
			xs := make([]int, n)
			for i := range xs {
				*next++
				xs[i] = *next % 997
			}
			return &node{Op: "slice", Xs: xs}
		}
	}
	top := 8
	if pairs {
		top = 10
	}
	switch r.IntN(top) {
	case 0:
		return &node{Op: "takewhile", F: r.IntN(nPred), Kids: []*node{randS(r, d-1, pairs, next)}}
	case 1:
		return &node{Op: "dropwhile", F: r.IntN(nPred), Kids: []*node{randS(r, d-1, pairs, next)}}
	case 2:
		return &node{Op: "filter", F: r.IntN(nPred), Kids: []*node{randS(r, d-1, pairs, next)}}
	case 3:
		return &node{Op: "map", F: r.IntN(nMap), Kids: []*node{randS(r, d-1, pairs, next)}}
	case 4, 5:
		return &node{Op: "plus", Kids: []*node{randS(r, d-1, pairs, next), randS(r, d-1, pairs, next)}}
	case 6, 7:
		return &node{Op: "join", F: r.IntN(nJoin), Kids: []*node{randS(r, d-1, pairs, next)}}
	default:
		return &node{Op: "toseq", F: r.IntN(nToSeq), Kids: []*node{randP(r, d-1, next)}}
	}
}

func randP(r rnd, d int, next *int) *node {
	if d <= 1 || r.IntN(8) == 0 {
		if r.IntN(6) == 0 {
			return &node{Op: "pfromshared", Xs: []int{1990 + r.IntN(2), 950 + r.IntN(2)}}
		}
		*next++
		return &node{Op: "pfrom", Xs: []int{1000 + *next, *next % 997}}
	}
	switch r.IntN(10) {
	case 0:
		return &node{Op: "ptakewhile", F: r.IntN(nPPred), Kids: []*node{randP(r, d-1, next)}}
	case 1:
		return &node{Op: "pdropwhile", F: r.IntN(nPPred), Kids: []*node{randP(r, d-1, next)}}
	case 2:
		return &node{Op: "pfilter", F: r.IntN(nPPred), Kids: []*node{randP(r, d-1, next)}}
	case 3:
		return &node{Op: "pmap", F: r.IntN(nPMap), Kids: []*node{randP(r, d-1, next)}}
	case 4, 5:
		return &node{Op: "pplus", Kids: []*node{randP(r, d-1, next), randP(r, d-1, next)}}
	case 6:
		return &node{Op: "pjoin", F: r.IntN(nPJoin), Kids: []*node{randP(r, d-1, next)}}
	default:
		return &node{Op: "fromseq", F: r.IntN(nFromS), Kids: []*node{randS(r, d-1, true, next)}}
	}
}

func main() {
	prop = common.Prop
	if prop == "" {
		prop = "C14"
	}
	pairs := prop == "C15"
	rule := "expression trees over From/FromSlice/TakeWhile/DropWhile/Filter/Map/Plus/Join"
	if pairs {
		rule = "expression trees over pair.From/TakeWhile/DropWhile/Filter/Map/Plus/Join/ToSeq/FromSeq mixed with the plain seq combinators (keys >= 1000, values < 997)"
	}
	rec = common.New(prop, rule+": all trees up to the depth bound over a small leaf/function alphabet, then seed-random deeper trees with leaves of 0..8 elements, then scale families (Plus chains, towers of one combinator and leaf lengths swept over 2^k-1, 2^k, 2^k+1; sequences of millions of elements under a 64 MB stack limit); "+
		"each tree is rebuilt from fresh leaves, drained with the documented loop and run through ForEach with the visitor failing at several positions; "+
		"compared with a strict list interpreter of the same tree; distinct by tree; non-trivial = list semantics yields >= 1 element and the tree has >= 1 combinator")
	defer rec.Finish()

	if common.Replay != "" {
		var c caseT
		if err := common.LoadReplay(&c); err != nil {
			rec.Inconclusive("cannot load replay: " + err.Error())
			return
		}
		if strings.HasPrefix(c.Tree.Op, "long/") {
			runLong(c.Tree)
			return
		}
		runTree(c.Tree)
		return
	}

	ifaceSeqs()
	var a alphabet
	depth := 3
	if !pairs {
		if common.Thorough() {
			a = alphabet{preds: []int{0, 1, 2, 3, 4, 5, 6, 7, 8}, maps: []int{0, 2}, joins: []int{0, 1, 2, 3, 4, 5, 6, 7, 8}, leaves: 6}
		} else {
			a = alphabet{preds: []int{0, 1, 2, 7, 8}, maps: []int{0}, joins: []int{2, 3, 4, 5, 6}, leaves: 4}
		}
	} else {
		if common.Thorough() {
			a = alphabet{preds: []int{2, 4}, maps: []int{0}, joins: []int{2}, ppreds: []int{1, 3, 4, 7}, pmaps: []int{0}, pjoins: []int{2, 3, 4, 5}, toseqs: []int{2, 3, 5}, fromseqs: []int{1, 2, 4}, leaves: 3}
			depth = 4
		} else {
			a = alphabet{preds: []int{1, 2, 7}, maps: []int{0}, joins: []int{2, 4}, ppreds: []int{0, 1, 2, 3, 7, 8}, pmaps: []int{0, 2}, pjoins: []int{0, 1, 2, 3, 4, 5, 6, 7}, toseqs: []int{0, 1, 2, 3, 4, 5, 6, 7, 8}, fromseqs: []int{0, 1, 2, 3, 4, 5, 6}, leaves: 4}
			depth = 3
		}
	}
	i := 0
	enumS(a, depth, pairs, func(t *node) {
		if i%common.NBatch == common.Batch {
			runTree(t)
		}
		i++
	})
	rec.Count("max_exhaustive_depth", int64(depth))
	rec.Count("max_exhaustive_trees_total", int64(i))

	j := 0
	scaleTrees(pairs, func(t *node) {
		if j%common.NBatch == common.Batch {
			runTree(t)
		}
		j++
	})
	rec.Count("scale_family_trees_total", int64(j))
	for k, t := range longCases(pairs) {
		if k%common.NBatch == common.Batch {
			runLong(t)
		}
	}

	nrand := common.Pick(150000, 2000000)
	for k := 0; k < nrand; k++ {
		if k%common.NBatch != common.Batch {
			continue
		}
		r := common.RngN("rand", uint64(k))
		next := r.IntN(900)
		d := 3 + r.IntN(5)
		var t *node
		if pairs && r.IntN(2) == 0 {
			t = randP(r, d, &next)
		} else {
			t = randS(r, d, pairs, &next)
		}
		if countNodes(t) > 200 {
			continue
		}
		runTree(t)
	}
}

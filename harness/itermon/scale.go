package main

import (
	"fmt"
	"runtime/debug"
	"slices"

	"verif/harness/common"

	"github.com/fogfish/golem/trait/pair"
	"github.com/fogfish/golem/trait/seq"
)

// Scale families. The enumerated and random trees are small (depth <= 8, leaves <= 8 elements); these families
// sweep the sizes where an implementation may switch strategy - 2^k-1, 2^k, 2^k+1 and round numbers - along three
// axes: length of a Plus chain (left- and right-nested), height of a tower of one combinator, and length of the
// underlying sequence. Chains and towers are ordinary trees and go through runTree (list interpreter, callback
// arguments, source slices, ForEach with a failing visitor). Very long sequences (millions of elements) are
// checked by a lean loop without argument logs, under a goroutine stack limit of 64 MB: a combinator that needs
// stack proportional to the number of elements it skips would exceed Go's default 1 GB limit on sequences a
// program can easily hold (a few tens of millions of elements) - with the smaller limit that shows at 2-3
// million, as the fatal "stack overflow" it is, attributed to the case by the write-ahead log.

func thresholds(lo, hi int) []int {
	out := []int{0, 1, 2, 3, 5, 10, 100, 1000, 3000, 10000}
	for k := 2; k <= 16; k++ {
		out = append(out, 1<<k-1, 1<<k, 1<<k+1)
	}
	slices.Sort(out)
	out = slices.Compact(out)
	var sel []int
	for _, v := range out {
		if v >= lo && v <= hi {
			sel = append(sel, v)
		}
	}
	return sel
}

func chainLeaf(i int, pairs bool) *node {
	if pairs {
		return &node{Op: "pfrom", Xs: []int{1000 + i, (i * 7) % 997}}
	}
	switch i % 3 {
	case 0:
		return &node{Op: "from", Xs: []int{(2 * i) % 997}}
	case 1:
		return &node{Op: "slice", Xs: []int{(2 * i) % 997, (2*i + 1) % 997}}
	}
	return &node{Op: "slice", Xs: []int{(2 * i) % 997}}
}

func chain(k int, left, pairs bool) *node {
	op := "plus"
	if pairs {
		op = "pplus"
	}
	t := chainLeaf(0, pairs)
	for i := 1; i < k; i++ {
		if left {
			t = &node{Op: op, Kids: []*node{t, chainLeaf(i, pairs)}}
		} else {
			t = &node{Op: op, Kids: []*node{chainLeaf(i, pairs), t}}
		}
	}
	return t
}

func tower(op string, f, k int, base *node) *node {
	t := base
	for i := 0; i < k; i++ {
		t = &node{Op: op, F: f, Kids: []*node{t}}
	}
	return t
}

func scaleTrees(pairs bool, emit func(*node)) {
	maxChain := common.Pick(300, 4200)
	for _, k := range thresholds(1, maxChain) {
		for _, left := range []bool{true, false} {
			emit(chain(k, left, false))
			// a chain partly consumed by a wrapper and extended afterwards
			emit(&node{Op: "plus", Kids: []*node{{Op: "dropwhile", F: 2, Kids: []*node{chain(k, left, false)}}, chainLeaf(k+1, false)}})
			emit(&node{Op: "map", F: 0, Kids: []*node{{Op: "filter", F: 5, Kids: []*node{chain(k, left, false)}}}})
			if pairs {
				emit(chain(k, left, true))
				emit(&node{Op: "pmap", F: 0, Kids: []*node{{Op: "pfilter", F: 5, Kids: []*node{chain(k, left, true)}}}})
				emit(&node{Op: "toseq", F: 2, Kids: []*node{chain(k, left, true)}})
				emit(&node{Op: "fromseq", F: 1, Kids: []*node{chain(k, left, false)}})
			}
		}
	}
	base := func() *node { return &node{Op: "slice", Xs: []int{11, 12, 13, 14, 15}} }
	pbase := func() *node { return chain(4, true, true) }
	for _, k := range thresholds(2, common.Pick(130, 1030)) {
		for _, tw := range []struct {
			op string
			f  int
		}{{"map", 1}, {"filter", 0}, {"filter", 5}, {"takewhile", 0}, {"dropwhile", 1}, {"join", 1}, {"join", 4}} {
			if tw.op == "join" && tw.f == 4 && k > 7 {
				continue // 3^k elements
			}
			emit(tower(tw.op, tw.f, k, base()))
		}
		if pairs {
			for _, tw := range []struct {
				op string
				f  int
			}{{"pmap", 1}, {"pfilter", 0}, {"pfilter", 5}, {"ptakewhile", 0}, {"pdropwhile", 1}, {"pjoin", 1}} {
				emit(tower(tw.op, tw.f, k, pbase()))
			}
		}
	}
	// long leaves under every unary combinator
	for _, n := range thresholds(30, common.Pick(4100, 70000)) {
		xs := make([]int, n)
		for i := range xs {
			xs[i] = (i * 13) % 997
		}
		leaf := func() *node { return &node{Op: "slice", Xs: xs} }
		for _, t := range []*node{
			{Op: "takewhile", F: 5, Kids: []*node{leaf()}}, {Op: "dropwhile", F: 5, Kids: []*node{leaf()}}, {Op: "filter", F: 6, Kids: []*node{leaf()}},
			{Op: "map", F: 0, Kids: []*node{leaf()}}, {Op: "join", F: 2, Kids: []*node{leaf()}}, {Op: "plus", Kids: []*node{leaf(), leaf()}},
		} {
			emit(t)
		}
		if pairs {
			for _, t := range []*node{
				{Op: "pdropwhile", F: 5, Kids: []*node{{Op: "fromseq", F: 1, Kids: []*node{leaf()}}}}, {Op: "pfilter", F: 4, Kids: []*node{{Op: "fromseq", F: 2, Kids: []*node{leaf()}}}},
				{Op: "toseq", F: 2, Kids: []*node{{Op: "ptakewhile", F: 5, Kids: []*node{{Op: "fromseq", F: 1, Kids: []*node{leaf()}}}}}},
			} {
				emit(t)
			}
		}
	}
}

// ---------------------------------------------------------------- very long sequences

const longStack = 64 << 20

func longCases(pairs bool) []*node {
	n := common.Pick(3_000_000, 20_000_000)
	names := []string{"dropwhile", "takewhile", "filter-sparse", "filter-tail", "map", "join", "foreach"}
	var out []*node
	for _, nm := range names {
		op := "long/" + nm
		if pairs {
			op = "long/p" + nm
		}
		out = append(out, &node{Op: op, Xs: []int{n}})
	}
	return out
}

func runLong(t *node) {
	c := caseT{Tree: t}
	id := common.ID(jsonTree(t))
	rec.Begin(id, c)
	defer rec.End(id)
	old := debug.SetMaxStack(longStack)
	defer debug.SetMaxStack(old)
	n := t.Xs[0]
	xs := make([]int, n)
	for i := range xs {
		xs[i] = i
	}
	keep := xs // the harness keeps its own view of the source
	site := prop + "/" + t.Op + "/"
	bad := func(format string, a ...any) {
		rec.Violate(site+"elements", fmt.Sprintf("sequence of %d elements: ", n)+fmt.Sprintf(format, a...), c)
	}
	cut := n - 3
	var got, want []int
	name := t.Op[len("long/"):]
	if pn := common.Catch(func() {
		if name[0] == 'p' {
			src := pair.FromSeq(seq.FromSlice(xs), func(x int) pair.Seq[int, int] { return pair.From(x, x+1) })
			var s pair.Seq[int, int]
			switch name {
			case "pdropwhile":
				s = pair.DropWhile(src, func(k, v int) bool { return k < cut })
				want = []int{cut, cut + 1, cut + 2}
			case "ptakewhile":
				s = pair.DropWhile(pair.TakeWhile(src, func(k, v int) bool { return k < cut }), func(k, v int) bool { return k < cut-2 })
				want = []int{cut - 2, cut - 1}
			case "pfilter-sparse":
				s = pair.Filter(src, func(k, v int) bool { return k%1_000_000 == 999_999 })
				for i := 999_999; i < n; i += 1_000_000 {
					want = append(want, i)
				}
			case "pfilter-tail":
				s = pair.Filter(src, func(k, v int) bool { return v > cut })
				want = []int{cut, cut + 1, cut + 2}
			case "pmap":
				s = pair.Filter(pair.Map(src, func(k, v int) int { return v * 2 }), func(k, v int) bool { return v >= 2*n-2 })
				want = []int{n - 2, n - 1}
			case "pjoin":
				s = pair.Filter(pair.Join(src, func(k, v int) pair.Seq[int, int] {
					if k%2 == 0 {
						return nil
					}
					return pair.From(k, v)
				}), func(k, v int) bool { return k >= cut })
				for i := cut; i < n; i++ {
					if i%2 == 1 {
						want = append(want, i)
					}
				}
			case "pforeach":
				cnt := 0
				if err := pair.ForEach(src, func(k, v int) error { cnt++; return nil }); err != nil || cnt != n {
					got = []int{cnt}
				}
				return
			}
			for has := s != nil; has; has = s.Next() {
				if s.Value() != s.Key()+1 && name != "pmap" {
					got = append(got, -1)
				}
				got = append(got, s.Key())
				if len(got) > len(want)+8 {
					break
				}
			}
			return
		}
		src := seq.FromSlice(xs)
		var s seq.Seq[int]
		switch name {
		case "dropwhile":
			s = seq.DropWhile(src, func(x int) bool { return x < cut })
			want = []int{cut, cut + 1, cut + 2}
		case "takewhile":
			s = seq.DropWhile(seq.TakeWhile(src, func(x int) bool { return x < cut }), func(x int) bool { return x < cut-2 })
			want = []int{cut - 2, cut - 1}
		case "filter-sparse":
			s = seq.Filter(src, func(x int) bool { return x%1_000_000 == 999_999 })
			for i := 999_999; i < n; i += 1_000_000 {
				want = append(want, i)
			}
		case "filter-tail":
			s = seq.Filter(src, func(x int) bool { return x >= cut })
			want = []int{cut, cut + 1, cut + 2}
		case "map":
			s = seq.Filter(seq.Map(src, func(x int) int { return x * 2 }), func(x int) bool { return x >= 2*n-4 })
			want = []int{2*n - 4, 2*n - 2}
		case "join":
			s = seq.Filter(seq.Join(src, func(x int) seq.Seq[int] {
				if x%2 == 0 {
					return nil
				}
				return seq.From(x)
			}), func(x int) bool { return x >= cut })
			for i := cut; i < n; i++ {
				if i%2 == 1 {
					want = append(want, i)
				}
			}
		case "foreach":
			cnt := 0
			if err := seq.ForEach(src, func(x int) error { cnt++; return nil }); err != nil || cnt != n {
				got = []int{cnt}
			}
			return
		}
		for has := s != nil; has; has = s.Next() {
			got = append(got, s.Value())
			if len(got) > len(want)+8 {
				break
			}
		}
	}); pn != nil {
		rec.Violate(site+"panic", fmt.Sprintf("sequence of %d elements: panic: %v", n, pn), c)
		return
	}
	if !slices.Equal(got, want) {
		bad("drained %v, list semantics gives %v", got, want)
	}
	for i := 0; i < n; i += 1 + n/1000 {
		if keep[i] != i {
			rec.Violate(site+"source-modified", fmt.Sprintf("source slice of %d elements was modified at %d", n, i), c)
			break
		}
	}
	rec.Eval(jsonTree(t), true)
	rec.Count("long_sequence_elements", int64(n))
}

// Package optrt is the run-time side of engine B. The generated program (struct
// shapes + optic derivations + selector-based oracles, see lib/optgen.py) calls
// into it. The primary oracle is the byte-level neighbour monitor: the struct under
// test lives inside a heap-allocated guard with canaries before and after; every
// byte of the guard is snapshotted around each optic operation and every byte
// outside the focus (other fields, padding holes, both canaries) must be unchanged.
// The focus location and size come from ordinary Go selectors, i.e. from the
// compiler. checkptr / ASan run underneath as the second oracle.
package optrt

import (
	"fmt"
	"math"
	"math/rand/v2"
	"os"
	"reflect"
	"runtime"
	"strings"
	"sync"
	"sync/atomic"
	"unsafe"

	"verif/harness/common"
)

var (
	Rec  *common.Recorder
	only = os.Getenv("VERIF_ONLY") // run only the case with this id (replay)
)

// Want reports whether a case of this property should run in this process.
func Want(prop, id string) bool {
	if common.Prop != "" && prop != common.Prop {
		return false
	}
	if only != "" && id != only {
		return false
	}
	return true
}

type Region struct{ Off, Size uintptr }

type guard[S any] struct {
	pre  [64]byte
	s    S
	post [64]byte
}

func newGuard[S any](k int) *guard[S] {
	g := new(guard[S])
	for i := range g.pre {
		g.pre[i] = byte(0xA5 ^ i ^ k)
		g.post[i] = byte(0x5A ^ i ^ (k * 7))
	}
	return g
}

func bytesOf[S any](g *guard[S]) []byte {
	return unsafe.Slice((*byte)(unsafe.Pointer(g)), unsafe.Sizeof(*g))
}

func snap[S any](g *guard[S]) []byte { return append([]byte(nil), bytesOf(g)...) }

// firstDiff returns the first offset (relative to the struct) at which before and after differ
// outside the regions, or ok=true.
func firstDiff[S any](g *guard[S], before, after []byte, regions []Region) (int, bool) {
	base := unsafe.Offsetof(g.s)
	for i := range before {
		if before[i] == after[i] {
			continue
		}
		in := false
		for _, r := range regions {
			if uintptr(i) >= base+r.Off && uintptr(i) < base+r.Off+r.Size {
				in = true
				break
			}
		}
		if !in {
			return i - int(base), false
		}
	}
	return 0, true
}

// Case describes one generated case for the write-ahead log / replay.
type Case struct {
	ID     string `json:"id"`
	Site   string `json:"site"`
	Struct string `json:"struct"`
	Decl   string `json:"decl,omitempty"`
	Req    string `json:"request"`
	Expect string `json:"expect"`
}

// Optic is an optic under test with its selector-based oracle.
type Optic[S any] struct {
	Prop    string
	C       Case
	Kind    string            // lens | getter | setter
	Get     func(*S) any      // through the optic
	Put     func(*S, any) *S  // through the optic; returns what the optic returned
	Read    func(*S) any      // oracle: read the focus through ordinary selectors (converted to the optic's view)
	Write   func(*S, any)     // oracle: write the focus through ordinary selectors (given in the optic's view); nil for getter
	Regions func(*S) []Region // foci: offsets relative to s and sizes, from selectors
	Fill    func(*S, int)     // fills every field with values determined by the int
	Vals    []any             // values in the optic's view
	Zero    any               // zero value of the view (setter.Get)
	Expect  func(any) any     // what Read must give after Put(v) (identity for lenses)
}

// eq is reflect.DeepEqual made bit-exact for floating point (so -0 and +0 differ, as a lens must store
// exactly what it is given) and able to look into unexported fields.
func eq(a, b any) bool { return deepEq(reflect.ValueOf(a), reflect.ValueOf(b), 0) }

func deepEq(a, b reflect.Value, depth int) bool {
	if !a.IsValid() || !b.IsValid() {
		return a.IsValid() == b.IsValid()
	}
	if a.Type() != b.Type() {
		return false
	}
	if depth > 12 {
		return true
	}
	switch a.Kind() {
	case reflect.Bool:
		return a.Bool() == b.Bool()
	case reflect.Int, reflect.Int8, reflect.Int16, reflect.Int32, reflect.Int64:
		return a.Int() == b.Int()
	case reflect.Uint, reflect.Uint8, reflect.Uint16, reflect.Uint32, reflect.Uint64, reflect.Uintptr:
		return a.Uint() == b.Uint()
	case reflect.Float32, reflect.Float64:
		return math.Float64bits(a.Float()) == math.Float64bits(b.Float())
	case reflect.Complex64, reflect.Complex128:
		x, y := a.Complex(), b.Complex()
		return math.Float64bits(real(x)) == math.Float64bits(real(y)) && math.Float64bits(imag(x)) == math.Float64bits(imag(y))
	case reflect.String:
		return a.String() == b.String()
	case reflect.Array:
		for i := 0; i < a.Len(); i++ {
			if !deepEq(a.Index(i), b.Index(i), depth+1) {
				return false
			}
		}
		return true
	case reflect.Slice:
		if a.IsNil() != b.IsNil() || a.Len() != b.Len() {
			return false
		}
		for i := 0; i < a.Len(); i++ {
			if !deepEq(a.Index(i), b.Index(i), depth+1) {
				return false
			}
		}
		return true
	case reflect.Struct:
		for i := 0; i < a.NumField(); i++ {
			if !deepEq(a.Field(i), b.Field(i), depth+1) {
				return false
			}
		}
		return true
	case reflect.Interface:
		if a.IsNil() || b.IsNil() {
			return a.IsNil() == b.IsNil()
		}
		return deepEq(a.Elem(), b.Elem(), depth+1)
	case reflect.Pointer:
		if a.IsNil() || b.IsNil() {
			return a.IsNil() == b.IsNil()
		}
		if a.Pointer() == b.Pointer() {
			return true
		}
		return deepEq(a.Elem(), b.Elem(), depth+1)
	case reflect.Map:
		if a.IsNil() != b.IsNil() || a.Len() != b.Len() {
			return false
		}
		if a.Pointer() == b.Pointer() {
			return true
		}
		for _, k := range a.MapKeys() {
			v := b.MapIndex(k)
			if !v.IsValid() || !deepEq(a.MapIndex(k), v, depth+1) {
				return false
			}
		}
		return true
	case reflect.Chan, reflect.Func, reflect.UnsafePointer:
		return a.Pointer() == b.Pointer()
	}
	return false
}

func show(v any) string {
	s := fmt.Sprintf("%#v", v)
	if len(s) > 120 {
		s = s[:120] + "..."
	}
	return s
}

func vio(prop string, c Case, class, format string, a ...any) {
	site := c.Site
	Rec.Violate(prop+"/"+site+"/"+class, c.Struct+" "+c.Req+": "+fmt.Sprintf(format, a...), c)
}

// Derive runs a derivation and reports whether it panicked (and with what).
func Derive(f func()) (panicked bool, msg string) {
	defer func() {
		if r := recover(); r != nil {
			panicked = true
			msg = fmt.Sprint(r)
			if len(msg) > 160 {
				msg = strings.ReplaceAll(msg[:160], "\n", " ")
			}
		}
	}()
	f()
	return false, ""
}

// Begin / End bracket a generated case in the write-ahead log.
func Begin(c Case) bool {
	if common.Skip(c.ID) {
		return false
	}
	Rec.Begin(c.ID, c)
	return true
}

func End(c Case, sig string, nontrivial bool) {
	Rec.End(c.ID)
	Rec.Eval(sig, nontrivial)
	if strings.HasPrefix(c.Expect, "panic") {
		Rec.Count("must_fail_requests_checked", 1)
	}
	if Rec.WantSample() {
		Rec.Sample(c)
	}
}

// CheckOptic runs the laws and the byte-level neighbour monitor over value pairs, in guard
// mode (canaries around S) and in "alone" mode (S is its own heap object, for checkptr/ASan).
func CheckOptic[S any](o Optic[S]) (ok bool) {
	ok = true
	p, c := o.Prop, o.C
	bad := func(class, format string, a ...any) {
		ok = false
		vio(p, c, class, format, a...)
	}
	if o.Expect == nil {
		o.Expect = func(v any) any { return v }
	}
	n := len(o.Vals)
	if n == 0 {
		return
	}
	// ---- cold start: the very first use of a freshly derived optic comes from four goroutines released together, each
	// with a structure of its own (optic values are stateless: whatever they resolve lazily must be published safely)
	if o.Kind != "setter" {
		const starters = 4
		var gate atomic.Int32
		msgs := make([]string, starters)
		var wg sync.WaitGroup
		for w := 0; w < starters; w++ {
			wg.Add(1)
			go func(w int) {
				defer wg.Done()
				g := newGuard[S](w)
				s := &g.s
				o.Fill(s, w)
				if o.Write != nil {
					o.Write(s, o.Vals[w%n])
				}
				want := o.Read(s)
				gate.Add(1)
				for gate.Load() < starters {
					runtime.Gosched()
				}
				var got any
				if pn, msg := Derive(func() { got = o.Get(s) }); pn {
					msgs[w] = "first Get (one of four concurrent first uses, each on its own structure) panicked: " + msg
				} else if !eq(got, want) {
					msgs[w] = fmt.Sprintf("first Get (one of four concurrent first uses of a fresh optic, each on its own structure) returned %s, the field holds %s", show(got), show(want))
				}
			}(w)
		}
		wg.Wait()
		Rec.Count("cold_concurrent_first_uses", starters)
		for _, m := range msgs {
			if m != "" {
				bad("cold-start", "%s", m)
				return
			}
		}
	}
	rounds := n
	if rounds < 4 {
		rounds = 4
	}
	for i := 0; i < rounds && ok; i++ {
		v0, v1, v2 := o.Vals[i%n], o.Vals[(i+1)%n], o.Vals[(i+3)%n]
		g := newGuard[S](i)
		s := &g.s
		o.Fill(s, i)
		if o.Write != nil {
			o.Write(s, v0)
		}
		regions := o.Regions(s)
		s0 := snap(g)
		// ---- Get
		var got any
		if pn, msg := Derive(func() { got = o.Get(s) }); pn {
			bad("get-panic", "Get panicked: %s", msg)
			return
		}
		if off, same := firstDiff(g, s0, bytesOf(g), nil); !same {
			bad("get-writes", "Get changed the byte at offset %d of the structure", off)
			return
		}
		switch o.Kind {
		case "setter":
			if !eq(got, o.Zero) {
				bad("setter-get", "Setter.Get returned %s, the zero value is expected", show(got))
			}
		default:
			if want := o.Read(s); !eq(got, want) {
				bad("get-value", "Get returned %s, the field read through its selector holds %s", show(got), show(want))
			}
		}
		// ---- GetPut (lens only): writing back what was read changes nothing
		if o.Kind == "lens" {
			var ret *S
			if pn, msg := Derive(func() { ret = o.Put(s, got) }); pn {
				bad("put-panic", "Put(Get(s)) panicked: %s", msg)
				return
			}
			if ret != s {
				bad("returned-pointer", "Put returned %p, the argument was %p", ret, s)
			}
			if off, same := firstDiff(g, s0, bytesOf(g), regions); !same {
				bad("put-outside-focus", "GetPut: Put(Get(s)) changed the byte at offset %d, outside the focus %v", off, regions)
				return
			}
			if want := o.Read(s); !eq(want, got) {
				bad("getput", "GetPut: after Put(Get(s)) the field holds %s, it held %s", show(want), show(got))
			}
		}
		// ---- Put
		var ret *S
		if pn, msg := Derive(func() { ret = o.Put(s, v1) }); pn {
			bad("put-panic", "Put(%s) panicked: %s", show(v1), msg)
			return
		}
		if ret != s {
			bad("returned-pointer", "Put returned %p, the argument was %p", ret, s)
		}
		if o.Kind == "getter" {
			if off, same := firstDiff(g, s0, bytesOf(g), nil); !same {
				bad("getter-writes", "Getter.Put changed the byte at offset %d", off)
			}
			continue
		}
		if off, same := firstDiff(g, s0, bytesOf(g), regions); !same {
			bad("put-outside-focus", "Put(%s) changed the byte at offset %d of the structure (size %d), outside the focus %v", show(v1), off, unsafe.Sizeof(*s), regions)
			return
		}
		if want, have := o.Expect(v1), o.Read(s); !eq(have, want) {
			bad("put-value", "after Put(%s) the field read through its selector holds %s, expected %s", show(v1), show(have), show(want))
		}
		if o.Write != nil {
			// twin-structure differential: the same edit made through ordinary selectors on a twin
			// (compared field by field, so padding inside intermediate structs does not matter)
			twin := new(S)
			o.Fill(twin, i)
			o.Write(twin, v0)
			o.Write(twin, v1)
			if !eq(*twin, *s) {
				bad("put-other-field", "after Put(%s) the structure differs from a twin edited through selectors: %s vs %s", show(v1), show(*s), show(*twin))
			}
		}
		if o.Kind == "lens" {
			// PutGet
			if pn, msg := Derive(func() { got = o.Get(s) }); pn {
				bad("get-panic", "Get panicked: %s", msg)
				return
			}
			if !eq(got, v1) {
				bad("putget", "PutGet: Get after Put(%s) returned %s", show(v1), show(got))
			}
		}
		// ---- PutPut
		if pn, msg := Derive(func() { ret = o.Put(s, v2) }); pn {
			bad("put-panic", "Put(%s) panicked: %s", show(v2), msg)
			return
		}
		if off, same := firstDiff(g, s0, bytesOf(g), regions); !same {
			bad("put-outside-focus", "second Put(%s) changed the byte at offset %d, outside the focus %v", show(v2), off, regions)
			return
		}
		if want, have := o.Expect(v2), o.Read(s); !eq(have, want) {
			bad("putput", "PutPut: after Put(%s); Put(%s) the field holds %s", show(v1), show(v2), show(have))
		}
		Rec.Count("put_get_observations", 1)
	}
	// ---- alone mode: S is its own heap object; anything past its end is the sanitizer's to catch
	for i := 0; i < 2 && ok; i++ {
		s := new(S)
		o.Fill(s, i+11)
		v1 := o.Vals[(i+2)%n]
		if o.Write != nil {
			o.Write(s, o.Vals[i%n])
		}
		if pn, msg := Derive(func() { o.Get(s); o.Put(s, v1) }); pn {
			bad("put-panic", "alone mode: panicked: %s", msg)
			return
		}
		if o.Kind != "getter" {
			if want, have := o.Expect(v1), o.Read(s); !eq(have, want) {
				bad("put-value", "alone mode: after Put(%s) the field holds %s", show(v1), show(have))
			}
		}
		keep(s)
	}
	// ---- shared mode: an optic is a value (often a package-level variable) used by several goroutines at once,
	// each on its own structure. Whatever it keeps between Get and Put inside itself shows as a foreign value.
	sharedCalls++
	if ok && o.Kind == "lens" && n >= 2 && (p == "C04" || sharedCalls%16 == 0) {
		const workers, turns = 4, 60
		var wg sync.WaitGroup
		msgs := make([]string, workers)
		for w := 0; w < workers; w++ {
			wg.Add(1)
			go func(w int) {
				defer wg.Done()
				g := newGuard[S](w)
				s := &g.s
				o.Fill(s, w)
				if o.Write != nil {
					o.Write(s, o.Vals[w%n])
				}
				regions := o.Regions(s)
				if pn, msg := Derive(func() {
					for i := 0; i < turns && msgs[w] == ""; i++ {
						v := o.Vals[(i+w)%n]
						before := snap(g)
						o.Put(s, v)
						if off, same := firstDiff(g, before, bytesOf(g), regions); !same {
							msgs[w] = fmt.Sprintf("Put(%s) changed the byte at offset %d of this goroutine's structure, outside the focus", show(v), off)
							return
						}
						if got := o.Get(s); !eq(got, v) {
							msgs[w] = fmt.Sprintf("Get after Put(%s) returned %s", show(v), show(got))
							return
						}
						if have := o.Read(s); !eq(have, o.Expect(v)) {
							msgs[w] = fmt.Sprintf("after Put(%s) the field holds %s", show(v), show(have))
						}
					}
				}); pn {
					msgs[w] = "panic: " + msg
				}
			}(w)
		}
		wg.Wait()
		for w, m := range msgs {
			if m != "" {
				bad("shared-optic", "one optic value used by %d goroutines, each on its own structure: goroutine %d: %s", workers, w, m)
				break
			}
		}
		Rec.Count("shared_optic_runs", 1)
	}
	return
}

var sharedCalls int

var sink any

func newRand(seed uint64) *rand.Rand { return rand.New(rand.NewPCG(seed, common.Seed)) }

//go:noinline
func keep(v any) { sink = v }

// WrongArg checks a Reflector given something that is not *S: it must panic and must not
// touch the memory it was handed (mem/size describe that memory; may be nil).
func WrongArg(prop string, c Case, what string, mem unsafe.Pointer, size uintptr, call func()) {
	var before []byte
	if mem != nil {
		before = append([]byte(nil), unsafe.Slice((*byte)(mem), size)...)
	}
	pn, _ := Derive(call)
	if !pn {
		vio(prop, c, "wrong-argument-accepted", "%s: the Reflector did not panic", what)
	}
	if mem != nil {
		after := unsafe.Slice((*byte)(mem), size)
		for i := range before {
			if before[i] != after[i] {
				vio(prop, c, "wrong-argument-written", "%s: byte %d of the argument's memory was modified", what, i)
				break
			}
		}
	}
	Rec.Count("wrong_argument_calls", 1)
}

// MustFail: a derivation the model marks "must fail" returned normally.
func Accepted(prop string, c Case, detail string) {
	vio(prop, c, "silently-accepted", "derivation must panic (%s) but returned an optic", detail)
	Rec.Checkpoint() // the optic is about to be used: make the verdict durable first
}

// Refused: a derivation the model marks valid panicked.
func Refused(prop string, c Case, msg string) {
	vio(prop, c, "derivation-panicked", "derivation of a valid focus panicked: %s", msg)
}

// Eq is the bit-exact deep equality used by the checks.
func Eq(a, b any) bool { return eq(a, b) }

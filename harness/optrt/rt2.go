package optrt

import (
	"fmt"
	"reflect"
	"runtime"
	"runtime/debug"
	"sort"
	"strings"
	"unsafe"

	"github.com/fogfish/golem/optics"
)

const Rule = "generated Go source: struct shapes (1-12 fields of mixed size/alignment incl. zero-size, pointers, interfaces, arrays, named types, nested anonymous structs, value embedding to depth 3, pointer embedding, embedded named non-struct types, hseq/foreign tags, duplicate names and types across depths) " +
	"x every focusable entry x derivation by name and by type through ForProduct1..9 / ForSpectrum1..9 / ForShape2..9 / hseq.New1..9 / FMap1..9 x value pools (boundary values, nil and shared pointers, maps, channels, interface values of varying dynamic type); " +
	"oracle: the Go compiler's layout through ordinary selectors + byte-level snapshot of a canary guard around the struct (every byte outside the focus must be unchanged), resolution model for first-match / must-fail; " +
	"plus function-local twin types of the same printed name, wide containers crossing 64/128/256 unfolded entries, foci and intermediates of 320-1100 bytes, and hand-over of pointer-holding values through the optic under back-to-back garbage collection (gccheckmark, clobberfree); " +
	"a case is one derivation request (K optics) with all its value rounds; distinct by (struct shape, request); non-trivial = the shape has more than one field or the request must fail"

const NoOffset = ^uintptr(0)

// ---------------------------------------------------------------- C03

type Want3[S any] struct {
	Key, Name  string
	Type, Pure reflect.Type
	Off        func(*S) uintptr
}

type Got3 struct {
	Key, Name  string
	Type, Pure reflect.Type
	ID         int
	Off        uintptr
}

func CheckListing[S any](prop string, c Case, s *S, got []Got3, want []Want3[S]) {
	Rec.Count("listing_entries_checked", int64(len(got)))
	if len(got) != len(want) {
		names := make([]string, len(got))
		for i, g := range got {
			names[i] = g.Name
		}
		wn := make([]string, len(want))
		for i, w := range want {
			wn[i] = w.Name
		}
		vio(prop, c, "listing-length", "unfolding lists %d entries %v, the declaration has %d: %v", len(got), names, len(want), wn)
		return
	}
	for i := range want {
		g, w := got[i], want[i]
		switch {
		case g.Name != w.Name:
			vio(prop, c, "listing-order", "entry %d is field %q, declaration order gives %q", i, g.Name, w.Name)
			return
		case g.Key != w.Key:
			vio(prop, c, "listing-key", "entry %d (%s) has key %q, expected %q", i, w.Name, g.Key, w.Key)
		case g.Type != w.Type:
			vio(prop, c, "listing-type", "entry %d (%s) has type %v, the field's type is %v", i, w.Name, g.Type, w.Type)
		case g.Pure != w.Pure:
			vio(prop, c, "listing-puretype", "entry %d (%s) has PureType %v, expected %v", i, w.Name, g.Pure, w.Pure)
		case g.ID != i:
			vio(prop, c, "listing-id", "entry %d (%s) has ID %d", i, w.Name, g.ID)
		}
		if o := w.Off(s); o != NoOffset && g.Off != o {
			vio(prop, c, "listing-offset", "entry %d (%s): RootOffs+Offset = %d, the field's real offset in the outer struct is %d", i, w.Name, g.Off, o)
		}
	}
}

func Iota(n int) []int {
	out := make([]int, n)
	for i := range out {
		out[i] = i
	}
	return out
}

func CheckIDs(prop string, c Case, what string, got, want []int) {
	if !reflect.DeepEqual(got, want) && !(len(got) == 0 && len(want) == 0) {
		vio(prop, c, "selection", "%s gave entries %v, expected %v", what, got, want)
	}
	Rec.Count("lookups_checked", 1)
}

// CheckIDsF: want == nil means the call must panic.
func CheckIDsF(prop string, c Case, what string, f func() []int, want []int) {
	var got []int
	pn, msg := Derive(func() { got = f() })
	switch {
	case want == nil && !pn:
		vio(prop, c, "lookup-silent", "%s must fail loudly but returned entries %v", what, got)
	case want != nil && pn:
		vio(prop, c, "lookup-panicked", "%s panicked: %s", what, msg)
	case want != nil:
		CheckIDs(prop, c, what, got, want)
		return
	}
	Rec.Count("lookups_checked", 1)
}

// CheckLookup: want == -1 means the lookup must panic.
func CheckLookup(prop string, c Case, what string, want int, f func() int) {
	got := -2
	pn, msg := Derive(func() { got = f() })
	switch {
	case want < 0 && !pn:
		vio(prop, c, "lookup-silent", "%s must fail loudly but returned entry %d", what, got)
	case want >= 0 && pn:
		vio(prop, c, "lookup-panicked", "%s panicked: %s", what, msg)
	case want >= 0 && got != want:
		vio(prop, c, "lookup-first-match", "%s returned entry %d, the first matching entry of the listing is %d", what, got, want)
	}
	Rec.Count("lookups_checked", 1)
}

func CheckMaybe(prop string, c Case, what string, want int, f func() (int, bool)) {
	var got int
	var ok bool
	if pn, msg := Derive(func() { got, ok = f() }); pn {
		vio(prop, c, "lookup-panicked", "%s panicked: %s", what, msg)
		return
	}
	switch {
	case want < 0 && ok:
		vio(prop, c, "lookup-silent", "%s reported presence (entry %d) for an absent name", what, got)
	case want >= 0 && !ok:
		vio(prop, c, "lookup-first-match", "%s reported absence, entry %d matches", what, want)
	case want >= 0 && got != want:
		vio(prop, c, "lookup-first-match", "%s returned entry %d, the first matching entry is %d", what, got, want)
	}
	Rec.Count("lookups_checked", 1)
}

// ---------------------------------------------------------------- C02 helpers

// UseBogus exercises an optic that should never have been derived, inside a guard, and reports
// what it did to memory (the sanitizer may kill the process first; the verdict is already on disk).
func UseBogus[S any](prop string, c Case, fill func(*S, int), use func(*S)) {
	g := newGuard[S](3)
	fill(&g.s, 3)
	before := snap(g)
	pn, msg := Derive(func() { use(&g.s) })
	if off, same := firstDiff(g, before, bytesOf(g), nil); !same {
		vio(prop, c, "bogus-optic-writes", "the silently accepted optic changed the byte at offset %d of the structure (size %d) (panicked=%v %s)", off, unsafe.Sizeof(g.s), pn, msg)
	}
	keep(g)
}

func UsePointerContainer[S any](prop string, c Case, fill func(*S, int), use func(**S)) {
	type holder struct {
		pre  [64]byte
		p    *S
		post [64]byte
	}
	h := new(holder)
	for i := range h.pre {
		h.pre[i], h.post[i] = 0xC3, 0x3C
	}
	g := newGuard[S](5)
	fill(&g.s, 5)
	h.p = &g.s
	hb := append([]byte(nil), unsafe.Slice((*byte)(unsafe.Pointer(h)), unsafe.Sizeof(*h))...)
	gb := snap(g)
	pn, msg := Derive(func() { use(&h.p) })
	ha := unsafe.Slice((*byte)(unsafe.Pointer(h)), unsafe.Sizeof(*h))
	for i := range hb {
		if hb[i] != ha[i] {
			vio(prop, c, "bogus-optic-writes", "the lens derived for a pointer container wrote at byte %d of the memory around the pointer variable (panicked=%v %s)", i, pn, msg)
			break
		}
	}
	if off, same := firstDiff(g, gb, bytesOf(g), nil); !same {
		vio(prop, c, "bogus-optic-writes", "the lens derived for a pointer container changed byte %d of the struct", off)
	}
	keep(h)
}

// ---------------------------------------------------------------- C04 helpers

// Tuples builds n value tuples, the i-th taking element (i+j) of pool j.
func Tuples(pools [][]any, n int) []any {
	out := make([]any, n)
	for i := range out {
		t := make([]any, len(pools))
		for j, p := range pools {
			t[j] = p[(i+j)%len(p)]
		}
		out[i] = t
	}
	return out
}

type IsoCase[S, T any] struct {
	Prop  string
	C     Case
	Isos  []optics.Isomorphism[S, T]
	Morph func(...optics.Isomorphism[S, T]) optics.Isomorphism[S, T]
	FillS func(*S, int)
	FillT func(*T, int)
	ReadS func(*S) []any
	ReadT func(*T) []any
	RegS  func(*S) []Region
	RegT  func(*T) []Region
}

func CheckIso[S, T any](ic IsoCase[S, T]) {
	p, c := ic.Prop, ic.C
	n := len(ic.Isos)
	// lists of isos: each single one, all, with nil entries, with repeats, reversed, empty
	type pick struct {
		name string
		idx  []int   // -1 = nil entry; -2-k = the k-th nested morphism of `nested`
		nest [][]int // nested morphisms (lists of iso indices), referenced from idx
	}
	picks := []pick{{name: "empty"}, {name: "nil only", idx: []int{-1, -1}}}
	all := Iota(n)
	for i := 0; i < n; i++ {
		picks = append(picks, pick{name: fmt.Sprintf("single %d", i), idx: []int{i}})
	}
	picks = append(picks, pick{name: "all", idx: all})
	withNil := []int{-1}
	for _, i := range all {
		withNil = append(withNil, i, -1)
	}
	picks = append(picks, pick{name: "all with nil entries", idx: withNil})
	rev := []int{}
	for i := n - 1; i >= 0; i-- {
		rev = append(rev, i, i)
	}
	picks = append(picks, pick{name: "reversed with repeats", idx: rev})
	if n > 1 {
		picks = append(picks, pick{name: "first and last", idx: []int{0, -1, n - 1, 0}})
		// morphisms nested inside morphisms, at the front, in the middle, at the end, next to nil entries
		picks = append(picks, pick{name: "nested first", idx: []int{-2, n - 1}, nest: [][]int{{0, 1 % n}}})
		picks = append(picks, pick{name: "nested first then nil and more", idx: append([]int{-2, -1}, all...), nest: [][]int{{0, 1 % n}}})
		picks = append(picks, pick{name: "nested middle", idx: []int{n - 1, -2, 0}, nest: [][]int{all}})
		picks = append(picks, pick{name: "nested last", idx: []int{0, -2}, nest: [][]int{{n - 1, 0}}})
		picks = append(picks, pick{name: "two nested", idx: []int{-2, -3}, nest: [][]int{{0}, all}})
		picks = append(picks, pick{name: "nested in nested", idx: []int{-2, n - 1}, nest: [][]int{{-2, 0}}})
	}
	for pi, pk := range picks {
		var iso optics.Isomorphism[S, T]
		in := map[int]bool{}
		var mk func(idx []int, depth int) optics.Isomorphism[S, T]
		mk = func(idx []int, depth int) optics.Isomorphism[S, T] {
			list := make([]optics.Isomorphism[S, T], len(idx))
			for i, x := range idx {
				switch {
				case x >= 0:
					list[i] = ic.Isos[x]
					in[x] = true
				case x <= -2 && depth < 3:
					sub := pk.nest[(-2-x)%len(pk.nest)]
					if depth > 0 { // the innermost level is a plain list
						sub = []int{0}
					}
					list[i] = mk(sub, depth+1)
				}
			}
			keep := append([]optics.Isomorphism[S, T](nil), list...)
			m := ic.Morph(list...)
			for i := range keep {
				if !sameIso(keep[i], list[i]) {
					vio(p, c, "iso-caller-list", "%s: Morphism(list...) rewrote entry %d of the caller's slice", pk.name, i)
					break
				}
			}
			return m
		}
		if len(pk.idx) == 1 && pk.idx[0] >= 0 {
			iso = ic.Isos[pk.idx[0]] // a bare Iso, not wrapped in a Morphism
			in[pk.idx[0]] = true
		} else {
			iso = mk(pk.idx, 0)
		}
		for k := 0; k < 3; k++ {
			gs, gt := newGuard[S](k), newGuard[T](k+1)
			ic.FillS(&gs.s, k+pi)
			ic.FillT(&gt.s, k+pi+2)
			regS, regT := ic.RegS(&gs.s), ic.RegT(&gt.s)
			var rs, rt []Region
			for i := range regS {
				if in[i] {
					rs = append(rs, regS[i])
					rt = append(rt, regT[i])
				}
			}
			s0, t0 := snap(gs), snap(gt)
			srcS, srcT := ic.ReadS(&gs.s), ic.ReadT(&gt.s)
			// Forward: included foci of t become those of s; s untouched; rest of t untouched
			if pn, msg := Derive(func() { iso.Forward(&gs.s, &gt.s) }); pn {
				vio(p, c, "iso-panic", "%s: Forward panicked: %s", pk.name, msg)
				return
			}
			if off, same := firstDiff(gs, s0, bytesOf(gs), nil); !same {
				vio(p, c, "iso-outside-focus", "%s: Forward changed byte %d of the source structure", pk.name, off)
				return
			}
			if off, same := firstDiff(gt, t0, bytesOf(gt), rt); !same {
				vio(p, c, "iso-outside-focus", "%s: Forward changed byte %d of the target structure, outside the foci %v", pk.name, off, rt)
				return
			}
			nowT := ic.ReadT(&gt.s)
			for i := range srcS {
				want := srcT[i]
				if in[i] {
					want = srcS[i]
				}
				if !eq(nowT[i], want) {
					vio(p, c, "iso-forward", "%s: after Forward target focus %d holds %s, expected %s", pk.name, i, show(nowT[i]), show(want))
					return
				}
			}
			// scramble the source, then Inverse restores the included source foci
			ic.FillS(&gs.s, k+pi+7)
			s1, t1 := snap(gs), snap(gt)
			scr := ic.ReadS(&gs.s)
			if pn, msg := Derive(func() { iso.Inverse(&gt.s, &gs.s) }); pn {
				vio(p, c, "iso-panic", "%s: Inverse panicked: %s", pk.name, msg)
				return
			}
			if off, same := firstDiff(gt, t1, bytesOf(gt), nil); !same {
				vio(p, c, "iso-outside-focus", "%s: Inverse changed byte %d of the target structure", pk.name, off)
				return
			}
			if off, same := firstDiff(gs, s1, bytesOf(gs), rs); !same {
				vio(p, c, "iso-outside-focus", "%s: Inverse changed byte %d of the source structure, outside the foci %v", pk.name, off, rs)
				return
			}
			nowS := ic.ReadS(&gs.s)
			for i := range srcS {
				want := scr[i]
				if in[i] {
					want = srcS[i]
				}
				if !eq(nowS[i], want) {
					vio(p, c, "iso-inverse", "%s: Forward then Inverse left source focus %d at %s, expected %s", pk.name, i, show(nowS[i]), show(want))
					return
				}
			}
			Rec.Count("iso_round_trips", 1)
		}
	}
}

// MapLens: a map lens touches only its key (hand-written, the container is not a struct).
func MapLens() {
	if !Want("C04", "C04-maplens") {
		return
	}
	c := Case{ID: "C04-maplens", Site: "NewLensM", Struct: "map[string]int", Req: "NewLensM[map[string]int](key)", Expect: "touches only its key"}
	if !Begin(c) {
		return
	}
	rng := newRand(7)
	for round := 0; round < 400; round++ {
		m := map[string]int{}
		for i := rng.IntN(6); i > 0; i-- {
			m[fmt.Sprintf("k%d", rng.IntN(8))] = rng.IntN(100) + 1
		}
		key := fmt.Sprintf("k%d", rng.IntN(8))
		before := map[string]int{}
		for k, v := range m {
			before[k] = v
		}
		l := optics.NewLensM[map[string]int, string, int](key)
		if got := l.Get(&m); got != before[key] {
			vio("C04", c, "maplens-get", "Get(%q) = %d, the map holds %d", key, got, before[key])
		}
		if len(m) != len(before) {
			vio("C04", c, "maplens-get-writes", "Get(%q) changed the map", key)
		}
		v := rng.IntN(1000) + 1000
		mp := &m
		if ret := l.Put(mp, v); ret != mp {
			vio("C04", c, "returned-pointer", "Put returned another pointer")
		}
		for k, x := range m {
			if k == key && x != v || k != key && before[k] != x {
				vio("C04", c, "maplens-put", "after Put(%q,%d) key %q holds %d (before: %d)", key, v, k, x, before[k])
			}
		}
		for k := range before {
			if _, ok := m[k]; !ok {
				vio("C04", c, "maplens-put", "after Put(%q) key %q disappeared", key, k)
			}
		}
		if l.Get(&m) != v {
			vio("C04", c, "putget", "Get after Put(%d) = %d", v, l.Get(&m))
		}
		Rec.Count("put_get_observations", 1)
		// a Getter over the map lens never writes: an absent key stays absent, a nil map stays nil
		other := fmt.Sprintf("k%d", 8+rng.IntN(3)) // never a key of m
		g := optics.Getter(optics.NewLensM[map[string]int, string, int](other), func(v int) string { return fmt.Sprint(v) })
		snapshot := map[string]int{}
		for k, x := range m {
			snapshot[k] = x
		}
		if pn, msg := Derive(func() { g.Put(&m, "ignored") }); pn {
			vio("C04", c, "getter-writes", "Getter(NewLensM(%q)).Put panicked: %s", other, msg)
		} else if !reflect.DeepEqual(m, snapshot) {
			vio("C04", c, "getter-writes", "Getter(NewLensM(%q)).Put changed the map: %v, it was %v", other, m, snapshot)
		}
		var none map[string]int
		if pn, msg := Derive(func() { g.Put(&none, "ignored") }); pn || none != nil {
			vio("C04", c, "getter-writes", "Getter(NewLensM(%q)).Put on a nil map: panic=%v %s, map now %v", other, pn, msg, none)
		}
		if got := g.Get(&m); got != "0" {
			vio("C04", c, "maplens-get", "Getter over an absent key returned %q", got)
		}
	}
	// a Getter over a Setter over a field lens: Put writes nothing at all
	type pair3 struct{ A, B, C int }
	gs := optics.Getter(optics.Setter(optics.ForProduct1[pair3, int]("B"), func(s string) int { return len(s) + 100 }), func(s string) int { return len(s) })
	for round := 0; round < 20; round++ {
		s := pair3{1, 20 + round, 3}
		gs.Put(&s, round)
		if s != (pair3{1, 20 + round, 3}) {
			vio("C04", c, "getter-writes", "Getter(Setter(B)).Put(%d) changed the structure to %+v", round, s)
		}
	}
	End(c, "C04/maplens", true)
}

func sameIso[S, T any](a, b optics.Isomorphism[S, T]) bool {
	if a == nil || b == nil {
		return a == nil && b == nil
	}
	va, vb := reflect.ValueOf(a), reflect.ValueOf(b)
	if va.Type() != vb.Type() {
		return false
	}
	if va.Type().Comparable() {
		return a == b
	}
	if va.Kind() == reflect.Slice {
		return va.Pointer() == vb.Pointer() && va.Len() == vb.Len()
	}
	return true
}

// ---------------------------------------------------------------- garbage collector

// GCHandover: values that hold pointers are handed from container to container through the optic only
// (v := Get(a); Put(b, v); Put(a, zero)) while the collector runs back to back. After a hand-over the value
// is reachable through the field the optic wrote and nowhere else; a store that the collector is not told about
// (bytes copied into a pointer slot behind its back) lets it free the value under the container: the check
// then finds other content, or the runtime aborts (found pointer to free object / checkmark failure with
// GODEBUG=gccheckmark=1,clobberfree=1, which the driver sets), attributed to this case by the write-ahead log.
// mk(i) builds a fresh heap value recognisable as number i, check(v, i) tells whether v still is that value.
func GCHandover[S any](o Optic[S], zero any, mk func(i int) any, check func(v any, i int) bool) {
	const boxes, moves = 192, 30000
	old := debug.SetGCPercent(5)
	defer debug.SetGCPercent(old)
	bs := make([]*S, boxes)
	ids := make([]int, boxes)
	for j := range bs {
		bs[j] = new(S)
		o.Fill(bs[j], j)
		ids[j] = -1
		o.Put(bs[j], zero)
	}
	next := 0
	for j := 0; j < boxes; j += 2 {
		next++
		o.Put(bs[j], mk(next))
		ids[j] = next
	}
	stop := make(chan struct{})
	done := make(chan struct{})
	go func() {
		defer close(done)
		var junk [][]byte
		for k := 0; ; k++ {
			select {
			case <-stop:
				return
			default:
			}
			runtime.GC()
			// garbage of the usual small size classes takes the memory of whatever was freed
			junk = junk[:0]
			for z := 0; z < 256; z++ {
				b := make([]byte, 8<<(z%5))
				for q := range b {
					b[q] = 0xAB
				}
				junk = append(junk, b)
			}
			keep(junk)
		}
	}()
	r := newRand(uint64(len(o.C.ID)) + 77)
	bad := ""
	verify := func() {
		for j := range bs {
			if ids[j] < 0 {
				continue
			}
			v := o.Get(bs[j])
			if !check(v, ids[j]) {
				bad = fmt.Sprintf("the value put into container %d (number %d) is no longer what Get returns: %s", j, ids[j], show(v))
				return
			}
		}
	}
	if pn, msg := Derive(func() {
		for m := 0; m < moves && bad == ""; m++ {
			a, b := r.IntN(boxes), r.IntN(boxes)
			switch {
			case ids[a] >= 0 && ids[b] < 0:
				o.Put(bs[b], o.Get(bs[a])) // the only copy moves
				o.Put(bs[a], zero)
				ids[b], ids[a] = ids[a], -1
			case ids[a] >= 0 && ids[b] >= 0 && a != b:
				next++
				o.Put(bs[a], mk(next)) // replaced by a fresh value
				ids[a] = next
			}
			if m%4096 == 4095 {
				runtime.Gosched()
				verify()
			}
		}
		if bad == "" {
			verify()
		}
	}); pn {
		bad = "panic: " + msg
	}
	close(stop)
	<-done
	if bad != "" {
		vio(o.Prop, o.C, "gc-handover", "%s", bad)
	}
	Rec.Count("gc_handover_moves", moves)
}

// ---------------------------------------------------------------- Join chains with a head that is not a field lens

type mlInner struct {
	Pad  int16
	N    int
	Note string
}

type mlOuter struct {
	ID   int
	In   mlInner
	Tail string
}

// JoinHeads: Join chains, nested to the left and to the right, whose first optic is a map lens or a converted
// (BiMap) lens rather than a plain field lens: Put has to reach the container through every optic of the chain.
func JoinHeads() {
	if !Want("C04", "C04-joinheads") {
		return
	}
	c := Case{ID: "C04-joinheads", Site: "Join/head-kinds", Struct: "map[string]mlOuter, mlOuter", Req: "Join(Join(head, In), N) and Join(head, Join(In, N)) for head = NewLensM / BiMap / field lens", Expect: "Put writes the nested field, Get reads it, nothing else changes"}
	if !Begin(c) {
		return
	}
	in := optics.ForProduct1[mlOuter, mlInner]("In")
	n := optics.ForProduct1[mlInner, int]("N")
	note := optics.ForProduct1[mlInner, string]("Note")
	// head 1: a map of structs
	for round := 0; round < 60; round++ {
		key := fmt.Sprintf("k%d", round%3)
		head := optics.NewLensM[map[string]mlOuter, string, mlOuter](key)
		chains := map[string]optics.Lens[map[string]mlOuter, int]{
			"Join(Join(map, In), N)": optics.Join(optics.Join(head, in), n),
			"Join(map, Join(In, N))": optics.Join(head, optics.Join(in, n)),
		}
		for name, l := range chains {
			m := map[string]mlOuter{"k0": {ID: 1, In: mlInner{1, 10, "a"}, Tail: "t0"}, "k1": {ID: 2, In: mlInner{2, 20, "b"}, Tail: "t1"}, "k2": {ID: 3, In: mlInner{3, 30, "c"}, Tail: "t2"}}
			want := map[string]mlOuter{}
			for k, v := range m {
				want[k] = v
			}
			if got := l.Get(&m); got != want[key].In.N {
				vio("C04", c, "joinhead-get", "%s: Get = %d, the map holds %d", name, got, want[key].In.N)
			}
			v := 1000 + round
			l.Put(&m, v)
			w := want[key]
			w.In.N = v
			want[key] = w
			if !reflect.DeepEqual(m, want) {
				vio("C04", c, "joinhead-put", "%s: after Put(%d) the map is %v, a write through selectors gives %v", name, v, m, want)
			}
			if got := l.Get(&m); got != v {
				vio("C04", c, "putget", "%s: Get after Put(%d) = %d", name, v, got)
			}
			Rec.Count("put_get_observations", 1)
		}
		// the string field through the same heads
		ls := optics.Join(optics.Join(head, in), note)
		m := map[string]mlOuter{key: {ID: 9, In: mlInner{1, 2, "old"}, Tail: "t"}}
		ls.Put(&m, "new")
		if m[key].In.Note != "new" || m[key].In.N != 2 || m[key].Tail != "t" || ls.Get(&m) != "new" {
			vio("C04", c, "joinhead-put", "Join(Join(map, In), Note): after Put(new) the entry is %+v", m[key])
		}
	}
	// head 2: a converted lens (the whole nested struct seen through an invertible conversion)
	type view struct {
		N    int
		Note string
		Pad  int16
	}
	conv := optics.BiMap(in,
		func(a mlInner) view { return view{a.N, a.Note, a.Pad} },
		func(b view) mlInner { return mlInner{b.Pad, b.N, b.Note} })
	vn := optics.ForProduct1[view, int]("N")
	vnote := optics.ForProduct1[view, string]("Note")
	for round := 0; round < 60; round++ {
		l := optics.Join(conv, vn)
		s := mlOuter{ID: 5, In: mlInner{7, 70 + round, "x"}, Tail: "tail"}
		if got := l.Get(&s); got != 70+round {
			vio("C04", c, "joinhead-get", "Join(BiMap(In), N): Get = %d, the field holds %d", got, 70+round)
		}
		l.Put(&s, -round)
		if s != (mlOuter{ID: 5, In: mlInner{7, -round, "x"}, Tail: "tail"}) || l.Get(&s) != -round {
			vio("C04", c, "joinhead-put", "Join(BiMap(In), N): after Put(%d) the structure is %+v", -round, s)
		}
		l2 := optics.Join(conv, vnote)
		l2.Put(&s, "y")
		if s.In.Note != "y" || s.In.N != -round || s.In.Pad != 7 || l2.Get(&s) != "y" {
			vio("C04", c, "joinhead-put", "Join(BiMap(In), Note): after Put(y) the structure is %+v", s)
		}
		Rec.Count("put_get_observations", 2)
	}
	End(c, "C04/joinheads", true)
}

// JoinComputedMap: the outer optic of a Join does not hand out a map stored in the structure but one it computes
// (labels kept as "k=v;k=v" text, seen as a map through a BiMap); the inner optic is a map lens. Put has to reach the
// text; the intermediate map is not the container's to share.
func JoinComputedMap() {
	if !Want("C04", "C04-joinmapview") {
		return
	}
	c := Case{ID: "C04-joinmapview", Site: "Join/computed-map", Struct: "struct{ID int; Labels string; Tail int}", Req: "Join(BiMap(Labels, decode, encode), NewLensM(key))", Expect: "Put rewrites the text, Get reads it"}
	if !Begin(c) {
		return
	}
	type rec struct {
		ID     int
		Labels string
		Tail   int
	}
	decode := func(s string) map[string]string {
		m := map[string]string{}
		for _, kv := range strings.Split(s, ";") {
			if k, v, ok := strings.Cut(kv, "="); ok {
				m[k] = v
			}
		}
		return m
	}
	encode := func(m map[string]string) string {
		keys := make([]string, 0, len(m))
		for k := range m {
			keys = append(keys, k)
		}
		sort.Strings(keys)
		parts := make([]string, len(keys))
		for i, k := range keys {
			parts[i] = k + "=" + m[k]
		}
		return strings.Join(parts, ";")
	}
	view := optics.BiMap(optics.ForProduct1[rec, string]("Labels"), decode, encode)
	for round := 0; round < 40; round++ {
		key := []string{"a", "b", "zz"}[round%3]
		l := optics.Join(view, optics.NewLensM[map[string]string, string, string](key))
		s := rec{ID: 7, Labels: "a=1;b=2", Tail: 9}
		want := decode(s.Labels)
		if got := l.Get(&s); got != want[key] {
			vio("C04", c, "joinhead-get", "Get(%q) = %q, the text holds %q", key, got, want[key])
		}
		v := fmt.Sprint("v", round)
		l.Put(&s, v)
		want[key] = v
		if s.ID != 7 || s.Tail != 9 || s.Labels != encode(want) {
			vio("C04", c, "joinhead-put", "after Put(%q, %q) the structure is %+v, the text should read %q", key, v, s, encode(want))
		}
		if got := l.Get(&s); got != v {
			vio("C04", c, "putget", "Get after Put(%q, %q) = %q", key, v, got)
		}
		Rec.Count("put_get_observations", 1)
	}
	End(c, "C04/joinmapview", true)
}

// Vio reports a violation found by generated code itself (class, plain description).
func Vio(prop string, c Case, class, desc string) { vio(prop, c, class, "%s", desc) }

package main

import (
	"errors"
	"fmt"

	"verif/harness/common"

	"github.com/fogfish/golem/pure"
	"github.com/fogfish/golem/pure/eq"
	"github.com/fogfish/golem/pure/monoid"
	"github.com/fogfish/golem/pure/ord"
	"github.com/fogfish/golem/pure/semigroup"
)

// ContraMap over interface and pointer types: the values compared include the nil interface, typed nil pointers
// inside an interface and nil pointers; the projection is total (it maps nil to an ordinary key), so the derived
// instance still gives exactly what the base instance gives on the projected values - nil is not special.

type named string

func (n named) String() string { return string(n) }

type coded struct{ code int }

func (c *coded) Error() string { return fmt.Sprint("code ", c.code) }

func contraOver[B any](name string, pool []B, proj func(B) int) {
	var log []rec2[int]
	baseEq := eq.From[int](func(a, b int) bool { log = append(log, rec2[int]{a, b}); return a <= b })
	diff := func(a, b int) ord.Ordering { return ord.Ordering(a/2 - b/2) }
	baseOrd := ord.From[int](func(a, b int) ord.Ordering { log = append(log, rec2[int]{a, b}); return diff(a, b) })
	ce := eq.ContraMap[int, B]{Eq: baseEq, ContraMap: pure.ContraMap[int, B](proj)}
	co := ord.ContraMap[int, B]{Ord: baseOrd, ContraMap: pure.ContraMap[int, B](proj)}
	for i, a := range pool {
		for j, b := range pool {
			c := caseT{Kind: "contramap-iface:" + name, A: fmt.Sprintf("%#v", a), B: fmt.Sprintf("%#v", b), Fn: i*100 + j}
			pa, pb := proj(a), proj(b)
			rec.Eval(fmt.Sprint("cmi", name, i, j), i != j)
			log = log[:0]
			var ge bool
			var go2 ord.Ordering
			if p := common.Catch(func() { ge = ce.Equal(a, b) }); p != nil {
				bad("eq.ContraMap", fmt.Sprintf("%s: Equal(%#v, %#v) panics: %v (the projection is total)", name, a, b, p), c)
				continue
			}
			if ge != (pa <= pb) || len(log) != 1 || log[0] != (rec2[int]{pa, pb}) {
				bad("eq.ContraMap", fmt.Sprintf("%s: Equal(%#v, %#v)=%v, the base instance saw %v; the projections are (%d, %d) and the base gives %v on them", name, a, b, ge, log, pa, pb, pa <= pb), c)
			}
			log = log[:0]
			if p := common.Catch(func() { go2 = co.Compare(a, b) }); p != nil {
				bad("ord.ContraMap", fmt.Sprintf("%s: Compare(%#v, %#v) panics: %v (the projection is total)", name, a, b, p), c)
				continue
			}
			if go2 != diff(pa, pb) || len(log) != 1 || log[0] != (rec2[int]{pa, pb}) {
				bad("ord.ContraMap", fmt.Sprintf("%s: Compare(%#v, %#v)=%v, the base instance saw %v; the projections are (%d, %d) and the base gives %v on them", name, a, b, go2, log, pa, pb, diff(pa, pb)), c)
			}
			rec.Count("contramap_cases", 1)
		}
	}
}

func checkContraMapIface() {
	var nilCoded *coded
	contraOver("error", []error{nil, errors.New(""), errors.New("a"), errors.New("four"), &coded{7}, nilCoded, fmt.Errorf("w: %w", errors.New("x"))},
		func(e error) int {
			switch v := e.(type) {
			case nil:
				return 0
			case *coded:
				if v == nil {
					return -1
				}
				return v.code
			}
			return len(e.Error())
		})
	contraOver("fmt.Stringer", []fmt.Stringer{nil, named(""), named("b"), named("abc"), named("abcd")},
		func(s fmt.Stringer) int {
			if s == nil {
				return 0
			}
			return len(s.String())
		})
	contraOver("any", []any{nil, 0, 1, "", "xy", []int(nil), []int{1, 2, 3}, (*int)(nil), struct{}{}, 2.5},
		func(v any) int {
			switch x := v.(type) {
			case nil:
				return 3
			case int:
				return x
			case string:
				return len(x)
			case []int:
				return len(x)
			case float64:
				return int(x * 2)
			}
			return 9
		})
	one, five := 1, 5
	contraOver("*int", []*int{nil, &one, &five, new(int)},
		func(p *int) int {
			if p == nil {
				return 1
			}
			return *p
		})
	contraOver("func", []func() int{nil, func() int { return 4 }, func() int { return 0 }},
		func(f func() int) int {
			if f == nil {
				return 0
			}
			return f()
		})
	contraOver("map", []map[string]int{nil, {}, {"a": 1}, {"a": 1, "b": 2}}, func(m map[string]int) int { return len(m) })
}

// a monoid made from an element and NO semigroup (a nil interface: the operation was never configured) still has the
// given element as its Empty - folds over nothing, which never combine, use just that
func checkMonoidWithoutSemigroup() {
	for _, e := range []int{0, 7, -1} {
		c := caseT{Kind: "monoid.From/nil-semigroup", A: e}
		rec.Eval(fmt.Sprint("monoid-nil", e), true)
		var got int
		if p := common.Catch(func() { got = monoidFromNil(e).Empty() }); p != nil {
			bad("monoid.From", fmt.Sprintf("From(%d, nil): taking Empty() of the result panics: %v (the given element is its Empty whatever the operation is)", e, p), c)
		} else if got != e {
			bad("monoid.From", fmt.Sprintf("From(%d, nil).Empty() = %d", e, got), c)
		}
	}
	for _, e := range []string{"", "#"} {
		c := caseT{Kind: "monoid.From/nil-semigroup", A: e}
		rec.Eval(fmt.Sprint("monoid-nil-s", e), true)
		var got string
		if p := common.Catch(func() { got = monoid.From[string](e, nil).Empty() }); p != nil {
			bad("monoid.From", fmt.Sprintf("From(%q, nil): taking Empty() of the result panics: %v", e, p), c)
		} else if got != e {
			bad("monoid.From", fmt.Sprintf("From(%q, nil).Empty() = %q", e, got), c)
		}
	}
}

func monoidFromNil(e int) monoid.Monoid[int] { return monoid.From[int](e, nil) }

// the Empty of a monoid over slices is the very slice that was given: same storage, length and capacity (a fold that
// appends in place into a caller's buffer relies on it)
func checkMonoidSliceIdentity() {
	for _, k := range []int{0, 1, 8, 1000} {
		buf := make([]int, 0, k)
		c := caseT{Kind: "monoid/slice-identity", A: k}
		rec.Eval(fmt.Sprint("monoid-slice", k), true)
		app := func(a, b []int) []int { return append(a, b...) }
		for name, m := range map[string]monoid.Monoid[[]int]{"FromOp": monoid.FromOp(buf, app), "From": monoid.From[[]int](buf, semigroup.From[[]int](app))} {
			e := m.Empty()
			if len(e) != 0 || cap(e) != k || (e == nil) != (buf == nil) {
				bad("monoid."+name, fmt.Sprintf("Empty() has len %d cap %d, the given element has len 0 cap %d", len(e), cap(e), k), c)
				continue
			}
			if k >= 8 {
				acc := m.Combine(m.Combine(m.Empty(), []int{1, 2}), []int{3})
				if &acc[0] != &buf[:1][0] {
					bad("monoid."+name, "a fold appending in place from Empty() left the buffer that was given as the empty element", c)
				}
			}
		}
	}
	type names []string
	given := make(names, 2, 5)
	if e := monoid.FromOp(given, func(a, b names) names { return append(a, b...) }).Empty(); len(e) != 2 || cap(e) != 5 {
		bad("monoid.FromOp", fmt.Sprintf("Empty() of a named slice type has len %d cap %d, given len 2 cap 5", len(e), cap(e)), caseT{Kind: "monoid/slice-identity", A: "named"})
	}
}

// puremon — C17: law monitors for pure/eq, pure/ord, pure/monoid, pure/semigroup.
// The oracle is the Go operators; base instances log their arguments so that
// ContraMap is checked for argument order, not only for the verdict.
package main

import (
	"fmt"
	"math"
	"os"
	"strings"

	"verif/harness/common"

	"github.com/fogfish/golem/pure"
	"github.com/fogfish/golem/pure/eq"
	"github.com/fogfish/golem/pure/monoid"
	"github.com/fogfish/golem/pure/ord"
	"github.com/fogfish/golem/pure/semigroup"
)

type caseT struct {
	Kind string `json:"kind"`
	A    any    `json:"a"`
	B    any    `json:"b"`
	C    any    `json:"c,omitempty"`
	Fn   int    `json:"fn,omitempty"`
}

var rec *common.Recorder

func cmpInt(a, b int) ord.Ordering {
	switch {
	case a < b:
		return ord.LT
	case a > b:
		return ord.GT
	}
	return ord.EQ
}
func cmpStr(a, b string) ord.Ordering {
	switch {
	case a < b:
		return ord.LT
	case a > b:
		return ord.GT
	}
	return ord.EQ
}

func bad(sig, desc string, c caseT) { rec.Violate("C17/"+sig, desc, c) }

type rec2[T any] struct{ a, b T }

func main() {
	rec = common.New("C17", "pairs and triples over a pool of boundary + seed-random ints and strings (all pairs, all triples of the pool), "+
		"x families of projections / wrapped functions / non-commutative operations; a case is distinct by (law, operands, function index); "+
		"non-trivial = the operands are not all equal")
	defer rec.Finish()
	rng := common.Rng("pool")

	ints := []int{math.MinInt, math.MinInt + 1, math.MinInt32, -2, -1, 0, 1, 2, 255, 256, math.MaxInt32, math.MaxInt - 1, math.MaxInt}
	nInt := common.Pick(40, 90)
	for len(ints) < nInt {
		switch rng.IntN(3) {
		case 0:
			ints = append(ints, int(rng.Uint64()))
		case 1:
			ints = append(ints, rng.IntN(17)-8)
		default:
			ints = append(ints, ints[rng.IntN(len(ints))]+rng.IntN(3)-1)
		}
	}
	strs := []string{"", "a", "b", "aa", "ab", "a\x00", "a\x00b", "\x00", "é", "e", "z", "Z", "日本", "日本語", "\xff", "\xfe\xff", "abc", "abd", "ab ", " "}
	alpha := []string{"a", "b", "\x00", "é", "日", "z", "\xff", " "}
	nStr := common.Pick(40, 90)
	for len(strs) < nStr {
		n := rng.IntN(6)
		s := ""
		if rng.IntN(2) == 0 {
			s = strs[rng.IntN(len(strs))]
		}
		for i := 0; i < n; i++ {
			s += alpha[rng.IntN(len(alpha))]
		}
		strs = append(strs, s)
	}

	// strings that share storage: prefixes, suffixes and empty slices of one buffer (equal content at other addresses,
	// equal addresses with other lengths)
	buf := "shared-buffer-\x00\xffZ"
	for _, k := range []int{0, 1, 6, 7, len(buf) - 1, len(buf)} {
		strs = append(strs, buf[:k], buf[k:], strings.Clone(buf[:k]))
	}
	strs = append(strs, buf[len(buf):], buf[3:3])

	if common.Replay != "" {
		fmt.Fprintln(os.Stderr, "replay: C17 cases are pure functions of the operands; re-running the whole pool at the recorded seed")
	}

	if ord.LT != -1 || ord.EQ != 0 || ord.GT != 1 {
		bad("ord.Ordering/constants", fmt.Sprintf("LT,EQ,GT = %d,%d,%d; documented -1,0,+1 (the zero Ordering is EQ, negation swaps LT and GT)", ord.LT, ord.EQ, ord.GT), caseT{Kind: "constants"})
	}
	checkInts(ints)
	checkStrs(strs)
	checkContraMap(ints, strs)
	checkContraMapIface()
	checkMonoidWithoutSemigroup()
	checkMonoidSliceIdentity()
	checkFrom(ints, strs)
	checkMonoid(ints, strs)
}

func checkInts(xs []int) {
	for _, a := range xs {
		for _, b := range xs {
			c := caseT{Kind: "int-pair", A: a, B: b}
			e := eq.Int.Equal(a, b)
			o := ord.Int.Compare(a, b)
			rec.Eval(fmt.Sprint("ip", a, b), a != b)
			if e != (a == b) {
				bad("eq.Int", fmt.Sprintf("eq.Int.Equal(%d,%d)=%v, == gives %v", a, b, e, a == b), c)
			}
			if o != cmpInt(a, b) {
				bad("ord.Int", fmt.Sprintf("ord.Int.Compare(%d,%d)=%v, operators give %v", a, b, o, cmpInt(a, b)), c)
			}
			if o != ord.LT && o != ord.EQ && o != ord.GT {
				bad("ord.Int/range", fmt.Sprintf("Compare returned %d", o), c)
			}
			if (o == ord.EQ) != e {
				bad("ord-eq-agree/int", fmt.Sprintf("Compare(%d,%d)=%v but Equal=%v", a, b, o, e), c)
			}
			// symmetry / antisymmetry
			if eq.Int.Equal(b, a) != e {
				bad("eq.Int/symmetry", fmt.Sprintf("Equal(%d,%d) != Equal(%d,%d)", a, b, b, a), c)
			}
			if ord.Int.Compare(b, a) != -o {
				bad("ord.Int/antisymmetry", fmt.Sprintf("Compare(%d,%d)=%v, Compare(%d,%d)=%v", a, b, o, b, a, ord.Int.Compare(b, a)), c)
			}
			rec.Count("int_pairs", 1)
		}
		if !eq.Int.Equal(a, a) || ord.Int.Compare(a, a) != ord.EQ {
			bad("reflexivity/int", fmt.Sprintf("a=%d", a), caseT{Kind: "int-refl", A: a})
		}
	}
	for _, a := range xs {
		for _, b := range xs {
			ab := ord.Int.Compare(a, b)
			eab := eq.Int.Equal(a, b)
			for _, c := range xs {
				bc := ord.Int.Compare(b, c)
				ac := ord.Int.Compare(a, c)
				if ab != ord.GT && bc != ord.GT && ac == ord.GT {
					bad("ord.Int/transitivity", fmt.Sprintf("%d<=%d<=%d but Compare(a,c)=GT", a, b, c), caseT{Kind: "int-triple", A: a, B: b, C: c})
				}
				if eab && eq.Int.Equal(b, c) && !eq.Int.Equal(a, c) {
					bad("eq.Int/transitivity", fmt.Sprintf("%d,%d,%d", a, b, c), caseT{Kind: "int-triple", A: a, B: b, C: c})
				}
			}
		}
	}
	rec.Count("int_triples", int64(len(xs)*len(xs)*len(xs)))
	rec.Eval(fmt.Sprint("int-triples", len(xs)), true)
}

func checkStrs(xs []string) {
	for _, a := range xs {
		for _, b := range xs {
			c := caseT{Kind: "str-pair", A: a, B: b}
			e := eq.String.Equal(a, b)
			o := ord.String.Compare(a, b)
			rec.Eval(fmt.Sprintf("sp%q%q", a, b), a != b)
			if e != (a == b) {
				bad("eq.String", fmt.Sprintf("eq.String.Equal(%q,%q)=%v", a, b, e), c)
			}
			if o != cmpStr(a, b) {
				bad("ord.String", fmt.Sprintf("ord.String.Compare(%q,%q)=%v, operators give %v", a, b, o, cmpStr(a, b)), c)
			}
			if (o == ord.EQ) != e {
				bad("ord-eq-agree/string", fmt.Sprintf("%q %q", a, b), c)
			}
			if eq.String.Equal(b, a) != e {
				bad("eq.String/symmetry", fmt.Sprintf("%q %q", a, b), c)
			}
			if ord.String.Compare(b, a) != -o {
				bad("ord.String/antisymmetry", fmt.Sprintf("%q %q", a, b), c)
			}
			rec.Count("string_pairs", 1)
		}
		if !eq.String.Equal(a, a) || ord.String.Compare(a, a) != ord.EQ {
			bad("reflexivity/string", fmt.Sprintf("%q", a), caseT{Kind: "str-refl", A: a})
		}
	}
	for _, a := range xs {
		for _, b := range xs {
			ab := ord.String.Compare(a, b)
			for _, c := range xs {
				bc := ord.String.Compare(b, c)
				ac := ord.String.Compare(a, c)
				if ab != ord.GT && bc != ord.GT && ac == ord.GT {
					bad("ord.String/transitivity", fmt.Sprintf("%q %q %q", a, b, c), caseT{Kind: "str-triple", A: a, B: b, C: c})
				}
			}
		}
	}
	rec.Count("string_triples", int64(len(xs)*len(xs)*len(xs)))
	rec.Eval(fmt.Sprint("str-triples", len(xs)), true)
}

// userMonoid has both Combine and Empty (so it is a semigroup.Semigroup and a monoid.Monoid)
type userMonoid struct{ f func(a, b int) int }

func (u userMonoid) Combine(a, b int) int { return u.f(a, b) }
func (u userMonoid) Empty() int           { return -99 }

type person struct {
	Name string
	Age  int
}

func checkContraMap(ints []int, strs []string) {
	// projections B -> A
	type projI struct {
		name string
		f    func(person) int
	}
	type projS struct {
		name string
		f    func(person) string
	}
	pis := []projI{
		{"age", func(p person) int { return p.Age }},
		{"age/2", func(p person) int { return p.Age / 2 }},
		{"-age", func(p person) int { return -p.Age }},
		{"len(name)", func(p person) int { return len(p.Name) }},
	}
	pss := []projS{
		{"name", func(p person) string { return p.Name }},
		{"name+x", func(p person) string { return p.Name + "x" }},
		{"first", func(p person) string {
			if p.Name == "" {
				return ""
			}
			return p.Name[:1]
		}},
	}
	var people []person
	for i, a := range ints {
		people = append(people, person{strs[(i*7)%len(strs)], a})
	}

	for fi, pi := range pis {
		var log []rec2[int]
		// logging base instances: a deliberately asymmetric Eq so that swapped arguments show
		baseEq := eq.From[int](func(a, b int) bool { log = append(log, rec2[int]{a, b}); return a <= b })
		baseOrd := ord.From[int](func(a, b int) ord.Ordering { log = append(log, rec2[int]{a, b}); return cmpInt(a, b) })
		ce := eq.ContraMap[int, person]{Eq: baseEq, ContraMap: pure.ContraMap[int, person](pi.f)}
		co := ord.ContraMap[int, person]{Ord: baseOrd, ContraMap: pure.ContraMap[int, person](pi.f)}
		cstd := ord.ContraMap[int, person]{Ord: ord.Int, ContraMap: pure.ContraMap[int, person](pi.f)}
		// a base instance lifted from a difference comparator: its results are any int, the derived instance must pass them on
		diff := func(a, b int) ord.Ordering { return ord.Ordering(a/3 - b/3) }
		cdiff := ord.ContraMap[int, person]{Ord: ord.From[int](diff), ContraMap: pure.ContraMap[int, person](pi.f)}
		nested := ord.ContraMap[int, person]{Ord: ord.ContraMap[int, int]{Ord: ord.From[int](diff), ContraMap: func(x int) int { return x / 2 }}, ContraMap: pure.ContraMap[int, person](pi.f)}
		estd := eq.ContraMap[int, person]{Eq: eq.Int, ContraMap: pure.ContraMap[int, person](pi.f)}
		for _, a := range people {
			for _, b := range people {
				c := caseT{Kind: "contramap-int:" + pi.name, A: a, B: b, Fn: fi}
				pa, pb := pi.f(a), pi.f(b)
				rec.Eval(fmt.Sprint("cmi", fi, a, b), pa != pb)
				log = log[:0]
				got := ce.Equal(a, b)
				if got != (pa <= pb) || len(log) != 1 || log[0] != (rec2[int]{pa, pb}) {
					bad("eq.ContraMap", fmt.Sprintf("%s: Equal(%v,%v)=%v, base saw %v, want base(%d,%d)=%v", pi.name, a, b, got, log, pa, pb, pa <= pb), c)
				}
				log = log[:0]
				go2 := co.Compare(a, b)
				if go2 != cmpInt(pa, pb) || len(log) != 1 || log[0] != (rec2[int]{pa, pb}) {
					bad("ord.ContraMap", fmt.Sprintf("%s: Compare(%v,%v)=%v, base saw %v, want base(%d,%d)=%v", pi.name, a, b, go2, log, pa, pb, cmpInt(pa, pb)), c)
				}
				if cstd.Compare(a, b) != cmpInt(pa, pb) {
					bad("ord.ContraMap/ord.Int", fmt.Sprintf("%s: %v %v", pi.name, a, b), c)
				}
				if g := cdiff.Compare(a, b); g != diff(pa, pb) {
					bad("ord.ContraMap", fmt.Sprintf("%s: base lifted from a difference comparator gives %d on the projections (%d,%d), the derived instance gave %d", pi.name, diff(pa, pb), pa, pb, g), c)
				}
				if g := nested.Compare(a, b); g != diff(pa/2, pb/2) {
					bad("ord.ContraMap", fmt.Sprintf("%s: nested ContraMap gave %d, base on projections gives %d", pi.name, g, diff(pa/2, pb/2)), c)
				}
				if g := ord.From[int](diff).Compare(pa, pb); g != diff(pa, pb) {
					bad("ord.From", fmt.Sprintf("From(diff).Compare(%d,%d)=%d want %d", pa, pb, g, diff(pa, pb)), c)
				}
				if estd.Equal(a, b) != (pa == pb) {
					bad("eq.ContraMap/eq.Int", fmt.Sprintf("%s: %v %v", pi.name, a, b), c)
				}
				rec.Count("contramap_cases", 1)
			}
		}
	}
	for fi, ps := range pss {
		var log []rec2[string]
		baseOrd := ord.From[string](func(a, b string) ord.Ordering { log = append(log, rec2[string]{a, b}); return cmpStr(a, b) })
		co := ord.ContraMap[string, person]{Ord: baseOrd, ContraMap: pure.ContraMap[string, person](ps.f)}
		estd := eq.ContraMap[string, person]{Eq: eq.String, ContraMap: pure.ContraMap[string, person](ps.f)}
		for _, a := range people {
			for _, b := range people {
				c := caseT{Kind: "contramap-str:" + ps.name, A: a, B: b, Fn: fi}
				pa, pb := ps.f(a), ps.f(b)
				rec.Eval(fmt.Sprint("cms", fi, a, b), pa != pb)
				log = log[:0]
				got := co.Compare(a, b)
				if got != cmpStr(pa, pb) || len(log) != 1 || log[0] != (rec2[string]{pa, pb}) {
					bad("ord.ContraMap", fmt.Sprintf("%s: Compare(%v,%v)=%v base saw %q", ps.name, a, b, got, log), c)
				}
				if estd.Equal(a, b) != (pa == pb) {
					bad("eq.ContraMap/eq.String", fmt.Sprintf("%s: %v %v", ps.name, a, b), c)
				}
				rec.Count("contramap_cases", 1)
			}
		}
	}
}

func mix(a, b int, k int) uint64 {
	x := uint64(a)*0x9E3779B97F4A7C15 ^ (uint64(b)+uint64(k))*0xC2B2AE3D27D4EB4F
	x ^= x >> 29
	x *= 0xBF58476D1CE4E5B9
	x ^= x >> 32
	return x
}

func checkFrom(ints []int, strs []string) {
	// families of arbitrary (asymmetric) functions indexed by k
	nf := common.Pick(6, 24)
	for k := 0; k < nf; k++ {
		k := k
		fe := func(a, b int) bool { return mix(a, b, k)&1 == 1 }
		fo := func(a, b int) ord.Ordering { return ord.Ordering(int(mix(a, b, k)%3) - 1) }
		fs := func(a, b int) int { return int(mix(a, b, k)) }
		we, wo, ws := eq.From[int](fe), ord.From[int](fo), semigroup.From[int](fs)
		for _, a := range ints {
			for _, b := range ints {
				c := caseT{Kind: "from", A: a, B: b, Fn: k}
				rec.Eval(fmt.Sprint("from", k, a, b), a != b)
				if we.Equal(a, b) != fe(a, b) {
					bad("eq.From", fmt.Sprintf("k=%d Equal(%d,%d)", k, a, b), c)
				}
				if wo.Compare(a, b) != fo(a, b) {
					bad("ord.From", fmt.Sprintf("k=%d Compare(%d,%d)", k, a, b), c)
				}
				if ws.Combine(a, b) != fs(a, b) {
					bad("semigroup.From", fmt.Sprintf("k=%d Combine(%d,%d)", k, a, b), c)
				}
				rec.Count("from_cases", 1)
			}
		}
	}
}

func checkMonoid(ints []int, strs []string) {
	type opI struct {
		name string
		f    func(a, b int) int
	}
	ops := []opI{
		{"sub", func(a, b int) int { return a - b }},
		{"3a+b", func(a, b int) int { return 3*a + b }},
		{"fst", func(a, b int) int { return a }},
		{"snd", func(a, b int) int { return b }},
		{"a*31^b", func(a, b int) int { return a*31 ^ b }},
	}
	for oi, op := range ops {
		for _, e := range ints {
			m1 := monoid.FromOp(e, op.f)
			m2 := monoid.From[int](e, semigroup.From[int](op.f))
			if m1.Empty() != e || m2.Empty() != e {
				bad("monoid.Empty", fmt.Sprintf("%s: Empty()=%d/%d, given %d", op.name, m1.Empty(), m2.Empty(), e), caseT{Kind: "monoid-empty:" + op.name, A: e})
			}
			rec.Count("monoid_empty_cases", 1)
		}
		m1 := monoid.FromOp(7, op.f)
		m2 := monoid.From[int](7, semigroup.From[int](op.f))
		for _, a := range ints {
			for _, b := range ints {
				c := caseT{Kind: "monoid-int:" + op.name, A: a, B: b, Fn: oi}
				rec.Eval(fmt.Sprint("mon", oi, a, b), a != b)
				want := op.f(a, b)
				if g := m1.Combine(a, b); g != want {
					bad("monoid.FromOp/Combine", fmt.Sprintf("%s: Combine(%d,%d)=%d want %d", op.name, a, b, g, want), c)
				}
				if g := m2.Combine(a, b); g != want {
					bad("monoid.From/Combine", fmt.Sprintf("%s: Combine(%d,%d)=%d want %d", op.name, a, b, g, want), c)
				}
				rec.Count("monoid_combine_cases", 1)
			}
		}
	}
	// the semigroup handed to monoid.From may itself be a Monoid (with another identity), or a user
	// type that has both methods: Empty must still be the element given to From
	for oi, op := range ops {
		for i, e := range ints {
			inner := monoid.FromOp(ints[(i+3)%len(ints)], op.f)
			m3 := monoid.From[int](e, inner)
			m4 := monoid.From[int](e, userMonoid{op.f})
			c := caseT{Kind: "monoid-from-monoid:" + op.name, A: e, B: inner.Empty(), Fn: oi}
			rec.Eval(fmt.Sprint("mfm", oi, e), e != inner.Empty())
			if m3.Empty() != e {
				bad("monoid.From/Empty", fmt.Sprintf("%s: From(%d, <a monoid whose identity is %d>).Empty() = %d", op.name, e, inner.Empty(), m3.Empty()), c)
			}
			if m4.Empty() != e {
				bad("monoid.From/Empty", fmt.Sprintf("%s: From(%d, <user type with Empty() = -99>).Empty() = %d", op.name, e, m4.Empty()), c)
			}
			a, b := ints[(i+1)%len(ints)], ints[(i+5)%len(ints)]
			if m3.Combine(a, b) != op.f(a, b) || m4.Combine(a, b) != op.f(a, b) {
				bad("monoid.From/Combine", fmt.Sprintf("%s: Combine(%d,%d) through a wrapped monoid", op.name, a, b), c)
			}
			rec.Count("monoid_empty_cases", 2)
		}
	}
	cat := func(a, b string) string { return a + "|" + b }
	for _, e := range strs {
		ms := monoid.FromOp(e, cat)
		if ms.Empty() != e {
			bad("monoid.Empty", fmt.Sprintf("string Empty()=%q given %q", ms.Empty(), e), caseT{Kind: "monoid-empty:str", A: e})
		}
	}
	ms := monoid.FromOp("", cat)
	ms2 := monoid.From[string]("", semigroup.From[string](cat))
	for _, a := range strs {
		for _, b := range strs {
			c := caseT{Kind: "monoid-str:cat", A: a, B: b}
			rec.Eval(fmt.Sprintf("mons%q%q", a, b), a != b)
			if ms.Combine(a, b) != a+"|"+b || ms2.Combine(a, b) != a+"|"+b {
				bad("monoid.FromOp/Combine", fmt.Sprintf("concat: Combine(%q,%q)=%q", a, b, ms.Combine(a, b)), c)
			}
			rec.Count("monoid_combine_cases", 1)
		}
	}
	rec.Sample(map[string]any{"kind": "int-pair", "a": ints[0], "b": ints[len(ints)-1], "eq": eq.Int.Equal(ints[0], ints[len(ints)-1]), "ord": ord.Int.Compare(ints[0], ints[len(ints)-1])})
	rec.Sample(map[string]any{"kind": "str-pair", "a": strs[5], "b": strs[6], "ord": ord.String.Compare(strs[5], strs[6])})
	rec.Sample(map[string]any{"kind": "monoid sub", "a": ints[1], "b": ints[3], "combine": monoid.FromOp(0, ops[0].f).Combine(ints[1], ints[3])})
	rec.Sample(map[string]any{"kind": "pool", "ints": ints[:16], "strings": strs[:24]})
}

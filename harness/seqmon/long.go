package main

import (
	"fmt"
	"runtime"
	"runtime/debug"
	"sync"
	"sync/atomic"

	"verif/harness/common"

	"github.com/fogfish/golem/seq"
)

// Long sequences. New, Cons/Tail walks and Fold over a million (four million) elements, with the goroutine stack
// limited to 32 MB: the operations are loops, their stack does not grow with the length of the sequence. (An
// implementation that needs a stack frame per element overflows here - a fatal error, attributed to this case by the
// driver - as it would with the default limit of 1 GB at a few million elements more.)
const longStack = 32 << 20

func runLongSeq(n int) {
	c := caseT{Elem: "long", N: n}
	id := common.ID(fmt.Sprint("long", n))
	if common.Skip(id) {
		return
	}
	rec.Begin(id, c)
	defer rec.End(id)
	old := debug.SetMaxStack(longStack)
	defer debug.SetMaxStack(old)
	xs := make([]int, n)
	for i := range xs {
		xs[i] = i*7 + 1
	}
	want := foldModel(xs)
	bad := func(impl, what string) {
		rec.Violate("C19/"+impl+"/long", fmt.Sprintf("sequence of %d elements: %s", n, what), c)
	}
	if p := common.Catch(func() {
		l := lt.New(xs...)
		s := st.New(xs...)
		if lt.Length(l) != n || st.Length(s) != n {
			bad("both", fmt.Sprintf("Length %d / %d", lt.Length(l), st.Length(s)))
		}
		if got := (seq.Foldable[lseq, int]{Seq: lt}).Fold(mon, l); got != want {
			bad("list", fmt.Sprintf("Fold gives %d, the left fold from Empty gives %d", got, want))
		}
		if got := (seq.Foldable[sseq, int]{Seq: st}).Fold(mon, s); got != want {
			bad("slice", fmt.Sprintf("Fold gives %d, the left fold from Empty gives %d", got, want))
		}
		// walk both to the end
		i := 0
		for ; !lt.IsEmpty(l) && !st.IsEmpty(s); i++ {
			if a, b := lt.Head(l), st.Head(s); a != xs[i] || b != xs[i] {
				bad("both", fmt.Sprintf("element %d is %d (list) / %d (slice), want %d", i, a, b, xs[i]))
				return
			}
			l, s = lt.Tail(l), st.Tail(s)
		}
		if i != n || !lt.IsEmpty(l) || !st.IsEmpty(s) {
			bad("both", fmt.Sprintf("the walk ended after %d elements", i))
		}
		// and built the other way round
		// (the list only: Cons on the slice implementation copies, a million of them would take hours)
		l2 := lt.New()
		for i := n - 1; i >= 0; i-- {
			l2 = lt.Cons(xs[i], l2)
		}
		if got := (seq.Foldable[lseq, int]{Seq: lt}).Fold(mon, l2); got != want {
			bad("list", fmt.Sprintf("built by Cons: Fold gives %d, want %d", got, want))
		}
	}); p != nil {
		bad("both", fmt.Sprint("panic: ", p))
	}
	rec.Eval(fmt.Sprint("long", n), true)
	rec.Count("long_sequence_elements", int64(n))
}

// A sequence is a value: Tail and Head never change it, so one sequence may be walked by several goroutines at the
// same time (each with its own cursor). Fresh sequences built by New, four walkers released together.
func runSharedWalkers(rounds int) {
	c := caseT{Elem: "shared-walkers", N: rounds}
	id := common.ID(fmt.Sprint("shared-walkers", rounds))
	if common.Skip(id) {
		return
	}
	rec.Begin(id, c)
	defer rec.End(id)
	xs := make([]int, 32)
	for i := range xs {
		xs[i] = i + 1
	}
	const walkers = 4
	for r := 0; r < rounds; r++ {
		l := lt.New(xs...)
		s := st.New(xs...)
		msgs := make([]string, walkers)
		var gate atomic.Int32
		var wg sync.WaitGroup
		for w := 0; w < walkers; w++ {
			wg.Add(1)
			go func(w int) {
				defer wg.Done()
				gate.Add(1)
				for gate.Load() < walkers {
					runtime.Gosched()
				}
				if p := common.Catch(func() {
					a, b := l, s
					for i := 0; i < len(xs); i++ {
						if lt.IsEmpty(a) || st.IsEmpty(b) || lt.Head(a) != xs[i] || st.Head(b) != xs[i] || lt.Length(a) != len(xs)-i {
							msgs[w] = fmt.Sprintf("walker %d: position %d of a sequence shared by %d walkers is not element %d", w, i, walkers, xs[i])
							return
						}
						a, b = lt.Tail(a), st.Tail(b)
					}
					if !lt.IsEmpty(a) || !st.IsEmpty(b) {
						msgs[w] = fmt.Sprintf("walker %d: the shared sequence does not end after %d elements", w, len(xs))
					}
				}); p != nil {
					msgs[w] = fmt.Sprintf("walker %d of %d on one shared sequence: panic: %v", w, walkers, p)
				}
			}(w)
		}
		wg.Wait()
		for _, m := range msgs {
			if m != "" {
				rec.Violate("C19/shared/walk", fmt.Sprintf("round %d: %s", r, m), c)
				return
			}
		}
	}
	rec.Eval(fmt.Sprint("shared-walkers", rounds), true)
	rec.Count("shared_sequence_walks", int64(rounds*walkers))
}

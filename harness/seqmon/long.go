package main

import (
	"fmt"
	"runtime/debug"

	"verif/harness/common"

	"github.com/fogfish/golem/seq"
)

// Long sequences. New, Cons/Tail walks and Fold over a million (four million) elements, with the goroutine stack
// limited to 32 MB: the operations are loops, their stack does not grow with the length of the sequence. (An
// implementation that needs a stack frame per element overflows here - a fatal error, attributed to this case by the
// driver - as it would with the default limit of 1 GB at a few million elements more.)
const longStack = 32 << 20

func runLongSeq(n int) {
	c := caseT{Elem: "long", N: n}
	id := common.ID(fmt.Sprint("long", n))
	if common.Skip(id) {
		return
	}
	rec.Begin(id, c)
	defer rec.End(id)
	old := debug.SetMaxStack(longStack)
	defer debug.SetMaxStack(old)
	xs := make([]int, n)
	for i := range xs {
		xs[i] = i*7 + 1
	}
	want := foldModel(xs)
	bad := func(impl, what string) {
		rec.Violate("C19/"+impl+"/long", fmt.Sprintf("sequence of %d elements: %s", n, what), c)
	}
	if p := common.Catch(func() {
		l := lt.New(xs...)
		s := st.New(xs...)
		if lt.Length(l) != n || st.Length(s) != n {
			bad("both", fmt.Sprintf("Length %d / %d", lt.Length(l), st.Length(s)))
		}
		if got := (seq.Foldable[lseq, int]{Seq: lt}).Fold(mon, l); got != want {
			bad("list", fmt.Sprintf("Fold gives %d, the left fold from Empty gives %d", got, want))
		}
		if got := (seq.Foldable[sseq, int]{Seq: st}).Fold(mon, s); got != want {
			bad("slice", fmt.Sprintf("Fold gives %d, the left fold from Empty gives %d", got, want))
		}
		// walk both to the end
		i := 0
		for ; !lt.IsEmpty(l) && !st.IsEmpty(s); i++ {
			if a, b := lt.Head(l), st.Head(s); a != xs[i] || b != xs[i] {
				bad("both", fmt.Sprintf("element %d is %d (list) / %d (slice), want %d", i, a, b, xs[i]))
				return
			}
			l, s = lt.Tail(l), st.Tail(s)
		}
		if i != n || !lt.IsEmpty(l) || !st.IsEmpty(s) {
			bad("both", fmt.Sprintf("the walk ended after %d elements", i))
		}
		// and built the other way round
		// (the list only: Cons on the slice implementation copies, a million of them would take hours)
		l2 := lt.New()
		for i := n - 1; i >= 0; i-- {
			l2 = lt.Cons(xs[i], l2)
		}
		if got := (seq.Foldable[lseq, int]{Seq: lt}).Fold(mon, l2); got != want {
			bad("list", fmt.Sprintf("built by Cons: Fold gives %d, want %d", got, want))
		}
	}); p != nil {
		bad("both", fmt.Sprint("panic: ", p))
	}
	rec.Eval(fmt.Sprint("long", n), true)
	rec.Count("long_sequence_elements", int64(n))
}

// seqmon — C19: the linked-list and the slice sequence traits (staged copy of
// internal/seq) are driven in lock step by the same script; after every
// operation every sequence ever created is re-extracted with Head/Tail and
// compared with an immutable-slice model (persistence), and with each other.
package main

import (
	"fmt"
	"slices"

	"verif/harness/common"

	"github.com/fogfish/golem/pure/monoid"
	"github.com/fogfish/golem/seq"
	"github.com/fogfish/golem/seq/list"
	"github.com/fogfish/golem/seq/slice"
)

// one script step
type op struct {
	Op  string `json:"op"`            // new | cons | tail
	Xs  []int  `json:"xs,omitempty"`  // new: elements
	X   int    `json:"x,omitempty"`   // cons: element
	Src int    `json:"src,omitempty"` // cons/tail: index of the source sequence in the pool
}

type caseT struct {
	Script []op   `json:"script"`
	Elem   string `json:"elem,omitempty"` // element type of the typed family ("" = int); "long" = the long-sequence case
	N      int    `json:"n,omitempty"`
}

type lseq = list.Seq[int]
type sseq = slice.Seq[int]

var (
	rec *common.Recorder
	lt  = list.Trait[int]("list")
	st  = slice.Trait[int]("slice")
	// non-commutative, non-zero identity (not a lawful monoid on purpose: Fold's
	// contract is "left to right starting from Empty")
	mon = monoid.FromOp(7, func(a, b int) int { return a*31 + b })
)

func extract[F any](t seq.Seq[F, int], s F, limit int) ([]int, bool) {
	out := []int{}
	for !t.IsEmpty(s) {
		if len(out) > limit {
			return out, false
		}
		out = append(out, t.Head(s))
		s = t.Tail(s)
	}
	return out, true
}

func foldModel(xs []int) int {
	acc := 7
	for _, x := range xs {
		acc = acc*31 + x
	}
	return acc
}

type world struct {
	model [][]int
	ls    []list.Seq[int]
	ss    []slice.Seq[int]
}

// verify every live sequence of both implementations against the model
func (w *world) verify(c caseT, step int) bool {
	ok := true
	for i, m := range w.model {
		chk := func(impl string, got []int, fin bool, length int, empty bool, fold int) {
			site := fmt.Sprintf("C19/%s/", impl)
			if !fin || !slices.Equal(got, m) {
				rec.Violate(site+"elements", fmt.Sprintf("after step %d sequence #%d extracts to %v, model %v (persistence or construction broken)", step, i, got, m), c)
				ok = false
			}
			if length != len(m) {
				rec.Violate(site+"length", fmt.Sprintf("after step %d Length(#%d)=%d, model %d", step, i, length, len(m)), c)
				ok = false
			}
			if empty != (len(m) == 0) {
				rec.Violate(site+"isempty", fmt.Sprintf("after step %d IsEmpty(#%d)=%v, model length %d", step, i, empty, len(m)), c)
				ok = false
			}
			if fin && fold != foldModel(m) {
				rec.Violate(site+"fold", fmt.Sprintf("after step %d Fold(#%d)=%d, left fold from Empty gives %d (elements %v)", step, i, fold, foldModel(m), m), c)
				ok = false
			}
		}
		var (
			lg, sg     []int
			lfin, sfin bool
			lf, sf     int
		)
		if p := common.Catch(func() {
			lg, lfin = extract[list.Seq[int]](lt, w.ls[i], len(m)+4)
			if lfin {
				lf = seq.Foldable[list.Seq[int], int]{Seq: lt}.Fold(mon, w.ls[i])
			}
		}); p != nil {
			rec.Violate("C19/list/panic", fmt.Sprintf("step %d seq #%d (model %v): %v", step, i, m, p), c)
			ok = false
			continue
		}
		if p := common.Catch(func() {
			sg, sfin = extract[slice.Seq[int]](st, w.ss[i], len(m)+4)
			if sfin {
				sf = seq.Foldable[slice.Seq[int], int]{Seq: st}.Fold(mon, w.ss[i])
			}
		}); p != nil {
			rec.Violate("C19/slice/panic", fmt.Sprintf("step %d seq #%d (model %v): %v", step, i, m, p), c)
			ok = false
			continue
		}
		chk("list", lg, lfin, lt.Length(w.ls[i]), lt.IsEmpty(w.ls[i]), lf)
		chk("slice", sg, sfin, st.Length(w.ss[i]), st.IsEmpty(w.ss[i]), sf)
		if len(m) > 0 {
			if h := lt.Head(w.ls[i]); h != m[0] {
				rec.Violate("C19/list/head", fmt.Sprintf("Head(#%d)=%d model %d", i, h, m[0]), c)
				ok = false
			}
			if h := st.Head(w.ss[i]); h != m[0] {
				rec.Violate("C19/slice/head", fmt.Sprintf("Head(#%d)=%d model %d", i, h, m[0]), c)
				ok = false
			}
		}
		rec.Count("sequence_extractions", 2)
	}
	return ok
}

func runScript(script []op) {
	c := caseT{Script: script}
	w := &world{}
	nontrivial := false
	for step, o := range script {
		p := common.Catch(func() {
			switch o.Op {
			case "new":
				w.model = append(w.model, slices.Clone(o.Xs))
				w.ls = append(w.ls, lt.New(slices.Clone(o.Xs)...))
				w.ss = append(w.ss, st.New(slices.Clone(o.Xs)...))
			case "cons":
				w.model = append(w.model, append([]int{o.X}, w.model[o.Src]...))
				w.ls = append(w.ls, lt.Cons(o.X, w.ls[o.Src]))
				w.ss = append(w.ss, st.Cons(o.X, w.ss[o.Src]))
				nontrivial = true
			case "tail":
				w.model = append(w.model, slices.Clone(w.model[o.Src][1:]))
				w.ls = append(w.ls, lt.Tail(w.ls[o.Src]))
				w.ss = append(w.ss, st.Tail(w.ss[o.Src]))
				nontrivial = true
			}
		})
		if p != nil {
			rec.Violate("C19/"+o.Op+"/panic", fmt.Sprintf("step %d %+v: %v", step, o, p), c)
			break
		}
		if !w.verify(c, step) {
			break
		}
	}
	rec.Eval(fmt.Sprint(script), nontrivial && len(script) >= 2)
	rec.Count("operations", int64(len(script)))
	if rec.WantSample() {
		rec.Sample(map[string]any{"script": script, "final_models": w.model})
	}
}

// enumerate all scripts of exactly `depth` steps; element values are unique
// (a counter), so aliasing between sequences is visible.
func enumerate(prefix []op, lens []int, next int, depth int) {
	if len(prefix) == depth {
		runScript(prefix)
		return
	}
	try := func(o op, l int, used int) {
		enumerate(append(slices.Clone(prefix), o), append(slices.Clone(lens), l), next+used, depth)
	}
	try(op{Op: "new"}, 0, 0)
	try(op{Op: "new", Xs: []int{next}}, 1, 1)
	try(op{Op: "new", Xs: []int{next, next + 1, next + 2}}, 3, 3)
	for i, l := range lens {
		try(op{Op: "cons", X: next, Src: i}, l+1, 1)
		if l > 0 {
			try(op{Op: "tail", Src: i}, l-1, 0)
		}
	}
}

func main() {
	rec = common.New("C19", "scripts of New/Cons/Tail over a growing pool of live sequences, executed on the list and the slice implementation in lock step; "+
		"after every step every sequence created so far is re-extracted via IsEmpty/Head/Tail and Length/IsEmpty/Head/Fold are compared with an immutable-slice model; "+
		"all scripts up to the depth bound plus seed-random long scripts; distinct by script; non-trivial = at least one Cons/Tail on an existing sequence and >= 2 steps")
	defer rec.Finish()
	if common.Replay != "" {
		var c caseT
		if err := common.LoadReplay(&c); err != nil {
			rec.Inconclusive("cannot load replay: " + err.Error())
			return
		}
		if c.Elem == "long" {
			runLongSeq(c.N)
			return
		}
		if c.Elem == "shared-walkers" {
			runSharedWalkers(c.N)
			return
		}
		if c.Elem != "" {
			runTypedKind(c.Elem, c.Script)
			return
		}
		runScript(c.Script)
		return
	}
	typedScripts()
	// a sequence grown by Cons, consumed to empty with Tail only, and on the way two different Cons onto every
	// remainder (the empty one included): spare capacity behind a remainder is never shared between the two
	for _, n := range []int{0, 1, 2, 3, 4, 5, 6, 7, 8, 9, 10, 12, 15, 16, 17, 20, 31, 32, 33, 64} {
		for _, grow := range []int{1, 2, 3} {
			xs := make([]int, n)
			for i := range xs {
				xs[i] = 500 + i
			}
			script := []op{{Op: "new", Xs: xs}}
			cur := 0
			for g := 0; g < grow; g++ {
				script = append(script, op{Op: "cons", X: 900 + g, Src: cur})
				cur = len(script) - 1
			}
			for i := 0; i < n+grow; i++ {
				script = append(script, op{Op: "tail", Src: cur})
				cur = len(script) - 1
				script = append(script, op{Op: "cons", X: 7000 + 2*i, Src: cur}, op{Op: "cons", X: 7001 + 2*i, Src: cur})
			}
			runScript(script)
			if n <= 17 {
				runTypedKind("", script)
			}
		}
	}
	runSharedWalkers(common.Pick(20000, 200000))
	for _, n := range []int{1 << 20, 4 << 20}[:common.Pick(1, 2)] {
		runLongSeq(n)
	}
	depth := common.Pick(5, 7)
	for d := 1; d <= depth; d++ {
		enumerate(nil, nil, 100, d)
	}
	rec.Count("max_exhaustive_script_length", int64(depth))
	rec.SetExhaustive(false)
	// random long scripts
	nrand := common.Pick(150, 3000)
	for k := 0; k < nrand; k++ {
		rng := common.RngN("rand", uint64(k))
		n := 20 + rng.IntN(common.Pick(120, 300))
		var script []op
		var lens []int
		next := 1000
		big := 0
		for len(script) < n {
			r := rng.IntN(10)
			switch {
			case len(lens) == 0 || r == 0:
				k := rng.IntN(6)
				if big < 2 && rng.IntN(3) == 0 { // a long sequence built by one New (block boundaries of an allocator, if any)
					k = []int{31, 32, 33, 63, 64, 65, 127, 128, 129, 255, 256, 257, 300, 511, 512, 513, 1000, 1025}[rng.IntN(18)]
					big++
				}
				xs := make([]int, k)
				for i := range xs {
					xs[i] = next
					next++
				}
				script = append(script, op{Op: "new", Xs: xs})
				lens = append(lens, k)
			case r < 6:
				src := pickSrc(rng.IntN, lens)
				script = append(script, op{Op: "cons", X: next, Src: src})
				next++
				lens = append(lens, lens[src]+1)
			default:
				src := pickSrc(rng.IntN, lens)
				if lens[src] == 0 {
					continue
				}
				script = append(script, op{Op: "tail", Src: src})
				lens = append(lens, lens[src]-1)
			}
		}
		runScript(script)
	}
}

// prefer recent sequences (long derivation chains) but reach old ones too
func pickSrc(intn func(int) int, lens []int) int {
	if intn(3) > 0 {
		k := len(lens) - 1 - intn(min(4, len(lens)))
		return k
	}
	return intn(len(lens))
}

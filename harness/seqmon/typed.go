package main

import (
	"fmt"
	"slices"

	"verif/harness/common"

	"github.com/fogfish/golem/pure/monoid"
	"github.com/fogfish/golem/seq"
	"github.com/fogfish/golem/seq/list"
	"github.com/fogfish/golem/seq/slice"
)

// Element types. The scripts of the main family use int elements; the same scripts are run again with elements of
// other types, element number x being mk(x): interface elements (any) whose dynamic values are ints, strings, nil,
// []any and []int values, elements larger than a memory page, zero-size elements, strings and pointers. Elements are
// compared through id (the number a value was made from; -1 for values that carry none).

type big [2048]uint64 // 16 KiB

type elemKind[E any] struct {
	name string
	mk   func(int) E
	id   func(E) int
}

func runTyped[E any](k elemKind[E], script []op) {
	c := caseT{Script: script, Elem: k.name}
	lt, st := list.Trait[E](k.name), slice.Trait[E](k.name)
	var model [][]int
	var ls []list.Seq[E]
	var ss []slice.Seq[E]
	mks := func(xs []int) []E {
		out := make([]E, len(xs))
		for i, x := range xs {
			out[i] = k.mk(x)
		}
		return out
	}
	ids := func(xs []int) []int {
		out := make([]int, len(xs))
		for i, x := range xs {
			out[i] = k.id(k.mk(x))
		}
		return out
	}
	var trace []int
	mon := monoid.FromOp(k.mk(7), func(a, b E) E { trace = append(trace, k.id(a), k.id(b)); return b })
	foldTrace := func(xs []int) []int {
		acc, out := k.id(k.mk(7)), []int{}
		for _, x := range ids(xs) {
			out = append(out, acc, x)
			acc = x
		}
		return out
	}
	site := "C19/" + k.name + "/"
	for step, o := range script {
		p := common.Catch(func() {
			switch o.Op {
			case "new":
				model = append(model, slices.Clone(o.Xs))
				ls = append(ls, lt.New(mks(o.Xs)...))
				ss = append(ss, st.New(mks(o.Xs)...))
			case "cons":
				model = append(model, append([]int{o.X}, model[o.Src]...))
				ls = append(ls, lt.Cons(k.mk(o.X), ls[o.Src]))
				ss = append(ss, st.Cons(k.mk(o.X), ss[o.Src]))
			case "tail":
				model = append(model, slices.Clone(model[o.Src][1:]))
				ls = append(ls, lt.Tail(ls[o.Src]))
				ss = append(ss, st.Tail(ss[o.Src]))
			}
		})
		if p != nil {
			rec.Violate(site+o.Op+"/panic", fmt.Sprintf("step %d %+v, %s elements: %v", step, o, k.name, p), c)
			return
		}
		for i, m := range model {
			want := ids(m)
			check := func(impl string, got []int, fin bool, length int, empty bool, tr []int) bool {
				switch {
				case !fin || !slices.Equal(got, want):
					rec.Violate(site+impl+"/elements", fmt.Sprintf("%s elements, after step %d (%+v) sequence #%d extracts to %v, model %v", k.name, step, o, i, got, want), c)
				case length != len(m):
					rec.Violate(site+impl+"/length", fmt.Sprintf("%s elements, after step %d (%+v) Length(#%d)=%d, model %d", k.name, step, o, i, length, len(m)), c)
				case empty != (len(m) == 0):
					rec.Violate(site+impl+"/isempty", fmt.Sprintf("%s elements, after step %d IsEmpty(#%d)=%v, model length %d", k.name, step, i, empty, len(m)), c)
				case !slices.Equal(tr, foldTrace(m)):
					rec.Violate(site+impl+"/fold", fmt.Sprintf("%s elements, after step %d Fold(#%d) combined (accumulator, element) pairs %v, left to right from Empty gives %v", k.name, step, i, tr, foldTrace(m)), c)
				default:
					return true
				}
				return false
			}
			var lg, sg, ltr, str []int
			var lfin, sfin bool
			if p := common.Catch(func() {
				lg, lfin = extractT(lt, k, ls[i], len(m)+4)
				trace = []int{}
				seq.Foldable[list.Seq[E], E]{Seq: lt}.Fold(mon, ls[i])
				ltr = trace
				sg, sfin = extractT(st, k, ss[i], len(m)+4)
				trace = []int{}
				seq.Foldable[slice.Seq[E], E]{Seq: st}.Fold(mon, ss[i])
				str = trace
			}); p != nil {
				rec.Violate(site+"panic", fmt.Sprintf("%s elements, step %d seq #%d (model %v): %v", k.name, step, i, want, p), c)
				return
			}
			if !check("list", lg, lfin, lt.Length(ls[i]), lt.IsEmpty(ls[i]), ltr) || !check("slice", sg, sfin, st.Length(ss[i]), st.IsEmpty(ss[i]), str) {
				return
			}
			rec.Count("sequence_extractions", 2)
		}
	}
	rec.Eval(fmt.Sprint(k.name, script), len(script) >= 2)
	rec.Count("operations", int64(len(script)))
	rec.Count("typed_scripts", 1)
}

func extractT[F, E any](t seq.Seq[F, E], k elemKind[E], s F, limit int) ([]int, bool) {
	out := []int{}
	for !t.IsEmpty(s) {
		if len(out) > limit {
			return out, false
		}
		out = append(out, k.id(t.Head(s)))
		s = t.Tail(s)
	}
	return out, true
}

var kindAny = elemKind[any]{"any",
	func(x int) any {
		switch x % 6 {
		case 0:
			return x
		case 1:
			return fmt.Sprint("s", x)
		case 2:
			return []any{x, "a", nil} // an element that is itself a slice of the element type
		case 3:
			return []int{x, x}
		case 4:
			return []any{}
		}
		return nil
	},
	func(v any) int {
		switch e := v.(type) {
		case int:
			return e
		case string:
			var x int
			fmt.Sscanf(e, "s%d", &x)
			return x
		case []any:
			if len(e) == 0 {
				return -4
			}
			return e[0].(int)
		case []int:
			return e[0]
		}
		return -1
	}}

var kindBig = elemKind[big]{"big", func(x int) big { var b big; b[0], b[2047] = uint64(x), uint64(x); return b }, func(b big) int {
	if b[0] != b[2047] {
		return -99
	}
	return int(b[0])
}}

var kindUnit = elemKind[struct{}]{"struct{}", func(int) struct{} { return struct{}{} }, func(struct{}) int { return 0 }}
var kindStr = elemKind[string]{"string", func(x int) string { return fmt.Sprint(x) }, func(s string) int { var x int; fmt.Sscan(s, &x); return x }}
var kindPtr = elemKind[*int]{"*int", func(x int) *int {
	if x%5 == 0 {
		return nil
	}
	return &x
}, func(p *int) int {
	if p == nil {
		return -1
	}
	return *p
}}
var kindSlice = elemKind[[]int]{"[]int", func(x int) []int { return []int{x} }, func(s []int) int { return s[0] }}

// typedScripts: every script to length 3 plus seed-random ones, per element kind
func typedScripts() {
	var scripts [][]op
	var gen func(prefix []op, lens []int, next int, depth int)
	gen = func(prefix []op, lens []int, next int, depth int) {
		if len(prefix) == depth {
			scripts = append(scripts, prefix)
			return
		}
		try := func(o op, l int, used int) {
			gen(append(slices.Clone(prefix), o), append(slices.Clone(lens), l), next+used, depth)
		}
		try(op{Op: "new"}, 0, 0)
		for w := 1; w <= 3; w++ {
			xs := make([]int, w)
			for i := range xs {
				xs[i] = next + i
			}
			try(op{Op: "new", Xs: xs}, w, w)
		}
		for i, l := range lens {
			try(op{Op: "cons", X: next, Src: i}, l+1, 1)
			if l > 0 {
				try(op{Op: "tail", Src: i}, l-1, 0)
			}
		}
	}
	for base := 100; base < 106; base++ { // every residue of the element makers at the first position
		for d := 1; d <= 3; d++ {
			gen(nil, nil, base, d)
		}
	}
	for k := 0; k < common.Pick(40, 400); k++ {
		rng := common.RngN("typed", uint64(k))
		var script []op
		var lens []int
		next := 1000 + k
		for len(script) < 4+rng.IntN(14) {
			switch r := rng.IntN(10); {
			case len(lens) == 0 || r < 2:
				n := rng.IntN(5)
				if rng.IntN(6) == 0 {
					n = []int{2, 3, 31, 33, 64, 65}[rng.IntN(6)]
				}
				xs := make([]int, n)
				for i := range xs {
					xs[i] = next
					next++
				}
				script = append(script, op{Op: "new", Xs: xs})
				lens = append(lens, n)
			case r < 6:
				src := pickSrc(rng.IntN, lens)
				script = append(script, op{Op: "cons", X: next, Src: src})
				next++
				lens = append(lens, lens[src]+1)
			default:
				src := pickSrc(rng.IntN, lens)
				if lens[src] == 0 {
					continue
				}
				script = append(script, op{Op: "tail", Src: src})
				lens = append(lens, lens[src]-1)
			}
		}
		scripts = append(scripts, script)
	}
	for _, s := range scripts {
		runTypedKind("", s)
	}
}

func runTypedKind(only string, s []op) {
	if only == "" || only == "any" {
		runTyped(kindAny, s)
	}
	if only == "" || only == "big" {
		runTyped(kindBig, s)
	}
	if only == "" || only == "struct{}" {
		runTyped(kindUnit, s)
	}
	if only == "" || only == "string" {
		runTyped(kindStr, s)
	}
	if only == "" || only == "*int" {
		runTyped(kindPtr, s)
	}
	if only == "" || only == "[]int" {
		runTyped(kindSlice, s)
	}
}

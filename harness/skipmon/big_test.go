package skipmon

import (
	"fmt"
	"math/rand"
	"testing"
	"time"

	"verif/harness/common"
)

// Large lists and long lives. The enumerated and random histories keep the list below a few dozen keys and
// check the whole structure after every operation; node heights above ~8 and list sizes where a search may
// start lower (L(n) = log n levels: e^7 ... e^10, 2^10 ... 2^14 elements) are reached only by volume. These
// families run hundreds of thousands of operations against a Go map with the per-operation results compared
// immediately (Get right after Put, Get/Remove of live and of removed keys) and the structural audit of the
// String() dump at the turning points:
//   window:    a sliding window of W live keys, every new key below (or above) all live ones, old ones removed
//   oscillate: the size swings between lo and hi around each threshold, keys fresh and random
// A case is (family, order, height seed, parameters); the operations are a function of those.

type bigT struct {
	Family string `json:"family"`
	N      int    `json:"n"`     // rounds
	W      int    `json:"w"`     // window size / threshold
	Dir    int    `json:"dir"`   // window: -1 descending keys, +1 ascending
	RSeed  uint64 `json:"rseed"` // selects the random choices
}

func runBig(c caseT) {
	if d := time.Until(epoch.Add(time.Duration(c.HSeed))); d > 0 {
		time.Sleep(d)
	}
	b := c.Big
	site := "C18/" + c.Order + "/" + b.Family + "/"
	var d driver
	if p := common.Catch(func() { d = newDriver(c.Order) }); p != nil {
		rec.Violate(site+"new/panic", fmt.Sprint(p), c)
		return
	}
	model := map[int]int{}
	var live []int // live keys, for O(1) random choice
	pos := map[int]int{}
	add := func(k int) {
		pos[k] = len(live)
		live = append(live, k)
	}
	del := func(k int) {
		i := pos[k]
		last := live[len(live)-1]
		live[i] = last
		pos[last] = i
		live = live[:len(live)-1]
		delete(pos, k)
	}
	ops := 0
	fail := func(cls, format string, a ...any) bool {
		rec.Violate(site+cls, fmt.Sprintf("operation %d (list of %d keys): ", ops, len(model))+fmt.Sprintf(format, a...), c)
		return false
	}
	put := func(k, v int) bool {
		ops++
		_, had := model[k]
		if p := common.Catch(func() { d.put(k, v) }); p != nil {
			return fail("put/panic", "Put(%s): %v", d.keyName(k), p)
		}
		model[k] = v
		if !had {
			add(k)
		}
		if g := d.get(k); g != v {
			return fail("get/result", "Get(%s) = %d right after Put(%s, %d)", d.keyName(k), g, d.keyName(k), v)
		}
		return true
	}
	get := func(k int) bool {
		ops++
		var g int
		if p := common.Catch(func() { g = d.get(k) }); p != nil {
			return fail("get/panic", "Get(%s): %v", d.keyName(k), p)
		}
		if g != model[k] {
			return fail("get/result", "Get(%s) = %d, map says %d", d.keyName(k), g, model[k])
		}
		return true
	}
	rem := func(k int) bool {
		ops++
		var g int
		if p := common.Catch(func() { g = d.rem(k) }); p != nil {
			return fail("rem/panic", "Remove(%s): %v", d.keyName(k), p)
		}
		if g != model[k] {
			return fail("rem/result", "Remove(%s) = %d, map says %d", d.keyName(k), g, model[k])
		}
		if _, had := model[k]; had {
			delete(model, k)
			del(k)
		}
		return true
	}
	audit := func() bool {
		keys := make([]int, 0, len(model))
		for k := range model {
			keys = append(keys, k)
		}
		var dump string
		if p := common.Catch(func() { dump = d.dump() }); p != nil {
			return fail("dump/panic", "%v", p)
		}
		if cls, msg := checkDump(d, dump, keys); cls != "" {
			if len(msg) > 600 {
				msg = msg[:600] + "..."
			}
			return fail("dump/"+cls, "%s", msg)
		}
		rec.Count("dumps_checked", 1)
		for _, k := range keys {
			if g := d.get(k); g != model[k] {
				return fail("audit-get", "Get(%s) = %d, map says %d", d.keyName(k), g, model[k])
			}
		}
		return true
	}
	r := common.RngN("big", b.RSeed)
	ok := true
	switch b.Family {
	case "window":
		var order []int // keys in insertion order
		next := 0
		for i := 0; i < b.N && ok; i++ {
			next += b.Dir
			ok = put(next, i+1)
			order = append(order, next)
			if ok && len(order) > b.W {
				old := order[0]
				order = order[1:]
				if i%5 == 0 {
					ok = get(old)
				}
				ok = ok && rem(old)
				if ok && i%7 == 0 {
					ok = get(old) // a removed key
				}
			}
			if ok && i%50_000 == 49_999 {
				ok = audit()
			}
		}
	case "tide":
		// the list fills to W keys, the oldest quarter is re-indexed (removed and put back under new keys), then it
		// drains to nothing, newest first; and again
		next := 0
		for ok && ops < b.N {
			var gen []int
			for ok && len(gen) < b.W {
				next++
				k := int(mix64(uint64(next)*2654435761+b.RSeed) % 1_000_000_007)
				if _, had := model[k]; had {
					continue
				}
				ok = put(k, next)
				gen = append(gen, k)
			}
			for i := 0; ok && i < len(gen)/4; i++ {
				ok = rem(gen[i])
				if ok {
					next++
					gen[i] = gen[i] + 1_000_000_007 + next
					ok = put(gen[i], next)
				}
			}
			ok = ok && audit()
			for i := len(gen) - 1; ok && i >= 0; i-- {
				if i%3 == 0 {
					ok = get(gen[i])
				}
				ok = ok && rem(gen[i])
				if ok && i == len(gen)/5 {
					ok = audit()
				}
			}
			ok = ok && audit()
		}
	case "fill":
		// N fresh keys are put one after the other (the history is chosen so that the node-height generator, which is
		// seeded from the clock, produces one of its most extreme draws at the last puts), then everything is audited
		for i := 1; ok && i <= b.N; i++ {
			k := int((uint64(i) * 2654435761) % 1_000_000_007) // distinct for distinct i: the i-th put makes the i-th new node
			ok = put(k, i)
		}
		ok = ok && audit()
		for i := 0; ok && i < 2000 && len(live) > 0; i++ {
			ok = rem(live[r.IntN(len(live))])
		}
		ok = ok && audit()
	case "oscillate":
		lo, hi := max(b.W-b.W/5-20, 0), b.W+b.W/5+20
		fresh := func() int {
			for {
				k := int(r.Uint64() % 1_000_000_007)
				if _, had := model[k]; !had {
					return k
				}
			}
		}
		v := 0
		var dead []int
		step := func(grow bool) bool {
			v++
			switch x := r.IntN(10); {
			case x < 2 && len(live) > 0:
				return get(live[r.IntN(len(live))])
			case x < 3 && len(dead) > 0:
				return get(dead[r.IntN(len(dead))])
			case x < 4 && len(live) > 0:
				return put(live[r.IntN(len(live))], v) // overwrite
			case grow:
				return put(fresh(), v)
			default:
				if len(live) == 0 {
					return true
				}
				k := live[r.IntN(len(live))]
				if len(dead) < 4096 {
					dead = append(dead, k)
				} else {
					dead[r.IntN(len(dead))] = k
				}
				return rem(k)
			}
		}
		for ok && ops < b.N {
			for ok && len(model) < hi && ops < b.N {
				ok = step(true)
			}
			ok = ok && audit()
			for ok && len(model) > lo && ops < b.N {
				ok = step(false)
			}
			ok = ok && audit()
		}
	}
	if ok {
		audit()
	}
	rec.Eval(fmt.Sprint(c.Order, c.HSeed, b), true)
	rec.Count("operations", int64(ops))
	rec.Count("big_list_operations", int64(ops))
	rec.Max("max_list_size", int64(b.W))
	if rec.WantSample() {
		rec.Sample(map[string]any{"case": c, "operations": ops, "final_keys": len(model)})
	}
}

func mix64(x uint64) uint64 {
	x ^= x >> 30
	x *= 0xbf58476d1ce4e5b9
	x ^= x >> 27
	x *= 0x94d049bb133111eb
	x ^= x >> 31
	return x
}

// extremeDraws looks, for a few clock seeds, for the position of the largest and of the smallest value among the first
// draws of the seeded generator the list uses for node heights (math/rand's seeded source is a documented,
// reproducible stream). It is only used to choose histories worth running: a list whose k-th new node gets the
// tallest - or the shortest - height it will ever get. The verdicts come from the map model as everywhere else.
func extremeDraws(seeds []int64, draws int) (out []struct {
	hseed int64
	n     int
	what  string
}) {
	var bestHi, bestLo struct {
		hseed int64
		n     int
		v     int64
	}
	bestLo.v = 1<<63 - 1
	for _, h := range seeds {
		src := rand.NewSource(epoch.Add(time.Duration(h)).UnixNano())
		for i := 1; i <= draws; i++ {
			v := src.Int63()
			if v > bestHi.v {
				bestHi.hseed, bestHi.n, bestHi.v = h, i, v
			}
			if v < bestLo.v {
				bestLo.hseed, bestLo.n, bestLo.v = h, i, v
			}
		}
	}
	type e = struct {
		hseed int64
		n     int
		what  string
	}
	return []e{{bestHi.hseed, bestHi.n, "largest"}, {bestLo.hseed, bestLo.n, "smallest"}}
}

// (virtual clock offset at New, position of the draw among the list's new nodes, value of the draw < 2^63 * 2e-10)
var knownTiny = []struct {
	hseed int64
	n     int
	v     int64
}{
	{1847472837051, 33259, 283510992},
	{730614517427, 60270, 1573041040},
	{2343319866885, 119195, 240692383},
	{983920043522, 125116, 764197706},
	{2227671626693, 148834, 1124960197},
	{2596248392197, 56505, 1205606907},
}

// the same for the other end of the range: draws whose 32 most significant bits are all set (one in 4.3 * 10^9)
var knownHuge = []struct {
	hseed int64
	n     int
	v     int64
}{
	{371535502665, 28305, 9223372035605032959},
	{2507010391833, 30816, 9223372035546879022},
	{644249871631, 58346, 9223372034992492585},
	{1760794382248, 125363, 9223372034969712085},
}

func bigCases(t *testing.T) {
	n := 0
	run := func(c caseT) {
		n++
		if n%common.NBatch != common.Batch {
			return
		}
		synctest_run(t, c)
	}
	rounds := common.Pick(700_000, 6_000_000)
	for i, o := range []struct {
		order string
		dir   int
	}{{"int", -1}, {"rev", +1}, {"int", +1}, {"str", -1}} {
		for _, w := range []int{64, 1000}[:common.Pick(1, 2)] {
			run(caseT{Site: "big", Order: o.order, HSeed: int64(i+1)*9_000_011 + int64(w), Big: &bigT{Family: "window", N: rounds, W: w, Dir: o.dir, RSeed: uint64(i)}})
		}
	}
	if common.Batch == 0 {
		var seeds []int64
		for i := 0; i < common.Pick(96, 400); i++ {
			seeds = append(seeds, int64(i+1)*11_000_003)
		}
		for _, x := range extremeDraws(seeds, 1_000_000) {
			c := caseT{Site: "big", Order: "int", HSeed: x.hseed, Big: &bigT{Family: "fill", N: x.n + 50, W: x.n, RSeed: uint64(x.n)}}
			synctest_run(t, c)
			rec.Count("steered_extreme_draw_histories", 1)
		}
		// draws below e^-22 (the last entry of the level table): one new node in 3.6 * 10^9 gets one, so they were looked
		// for once, offline, in the same documented stream (clock seed, position of the draw, its value); each entry is
		// validated against the generator before use and skipped if the stream ever changes
		for _, k := range append(append(knownTiny[:0:0], knownTiny[:common.Pick(3, len(knownTiny))]...), knownHuge[:common.Pick(2, len(knownHuge))]...) {
			src := rand.NewSource(epoch.Add(time.Duration(k.hseed)).UnixNano())
			var v int64
			for i := 1; i <= k.n; i++ {
				v = src.Int63()
			}
			if v != k.v {
				rec.Count("steered_known_draws_not_reproduced", 1)
				continue
			}
			c := caseT{Site: "big", Order: "int", HSeed: k.hseed, Big: &bigT{Family: "fill", N: k.n + 50, W: k.n, RSeed: uint64(k.n)}}
			synctest_run(t, c)
			rec.Count("steered_tiny_draw_histories", 1)
		}
	}
	ths := []int{1097, 2981, 8103, 22026, 1024, 4096, 8192, 16384, 59874, 65536}
	for i, th := range ths {
		orders := []string{"int", "rev", "mod", "str", "ptr", "iface"}
		run(caseT{Site: "big", Order: orders[i%6], HSeed: int64(i+1) * 5_000_017, Big: &bigT{Family: "oscillate", N: common.Pick(400_000, 4_000_000), W: th, RSeed: uint64(100 + i)}})
	}
	for i, w := range []int{300, 5000, 20000, 70000, 140000} {
		orders := []string{"int", "ptr", "rev", "int", "str"}
		run(caseT{Site: "big", Order: orders[i], HSeed: int64(i+1) * 3_000_029, Big: &bigT{Family: "tide", N: max(common.Pick(600_000, 5_000_000), 5*w), W: w, RSeed: uint64(200 + i)}})
	}
}

package skipmon

import (
	"fmt"
	"math"
	"math/rand"
	"testing"

	"verif/harness/common"
)

// Driven node heights. The statement holds "independently of the random node heights"; heights seeded from the clock
// sample only the likely ones. With the hook of the verification build the harness chooses the draws itself:
//   - every height configuration of small histories (each new node gets a height from a small set that includes the
//     tallest one), exhaustively;
//   - draws at the very ends of the generator's range (0, 1, 2^63-1, ...) and right at every threshold of the level
//     table, at each position of a short history.
// The verdicts come from the map model and the dump audit, as everywhere else.

// scripted: the given draws in order, then a seeded stream
type scripted struct {
	draws []int64
	i     int
	rest  rand.Source
}

func (s *scripted) Int63() int64 {
	if s.i < len(s.draws) {
		v := s.draws[s.i]
		s.i++
		return v
	}
	return s.rest.Int63()
}
func (s *scripted) Seed(int64) {}

// drawFor: a draw that gives a node of the wanted height under the level table e^-level (height h: e^-h <= p < e^-(h-1))
func drawFor(h int) int64 {
	p := math.Exp(-(float64(h) - 0.5))
	return int64(p * (1 << 63))
}

func edgeDraws() []int64 {
	out := []int64{0, 1, 2, 1 << 31, 1<<31 - 1, 1 << 32, 1 << 62, 1<<62 - 1, 1<<63 - 1, 1<<63 - 2, 1<<63 - 512, 1<<63 - 513, 1<<63 - 1<<31, 1<<63 - 1<<31 - 1, 1<<63 - 1<<38, 1<<63 - 1<<40}
	for level := 1; level <= 23; level++ {
		t := math.Exp(-float64(level)) * (1 << 63)
		for _, d := range []float64{-2048, -1, 0, 1, 2048} {
			if v := t + d; v >= 0 && v < (1<<63) {
				out = append(out, int64(v))
			}
		}
	}
	return out
}

func drivenCases(t *testing.T) {
	if !hookEnabled {
		rec.Count("driven_height_cases_skipped_hook_off", 1)
		return
	}
	n := 0
	var batch []caseT
	add := func(c caseT) {
		n++
		if n%common.NBatch != common.Batch {
			return
		}
		c.HSeed = int64(n) * 1_000_033
		batch = append(batch, c)
		if len(batch) >= 2000 {
			bubble(t, batch)
			batch = batch[:0]
		}
	}
	orders := []string{"int", "rev", "str", "mod"}
	// ---- edge draws at every position of a short history
	for ei, e := range edgeDraws() {
		for pos := 0; pos < 6; pos++ {
			draws := make([]int64, pos+1)
			for i := range draws {
				draws[i] = drawFor(1 + (i*7+ei)%4)
			}
			draws[pos] = e
			var h []op
			v := 1
			for k := 0; k < 8; k++ { // eight new keys (one draw each), then a mixed tail
				h = append(h, op{Op: "put", K: (k*5 + ei) % 11, V: v})
				v++
			}
			for k := 0; k < 11; k++ {
				h = append(h, op{Op: "get", K: k}, op{Op: []string{"rem", "put", "get"}[(k+pos)%3], K: (k * 3) % 11, V: v})
				v++
			}
			add(caseT{Site: "driven/edge", Order: orders[(ei+pos)%len(orders)], History: h, Audit: 1, Draws: draws})
		}
	}
	// ---- every height configuration of all histories over 3 keys to depth 4
	heights := []int{1, 2, 3, 22}
	keys := []int{9, 10, 11}
	var gen func(h []op, nextV int)
	gen = func(h []op, nextV int) {
		if len(h) > 0 {
			puts := 0
			for _, o := range h {
				if o.Op == "put" {
					puts++
				}
			}
			combos := 1
			for i := 0; i < puts; i++ {
				combos *= len(heights)
			}
			for cfg := 0; cfg < combos; cfg++ {
				draws := make([]int64, puts)
				x := cfg
				for i := range draws {
					draws[i] = drawFor(heights[x%len(heights)])
					x /= len(heights)
				}
				add(caseT{Site: "driven/heights", Order: orders[(len(h)+cfg)%len(orders)], History: append([]op(nil), h...), Audit: 1, Draws: draws})
			}
		}
		if len(h) == common.Pick(4, 5) {
			return
		}
		for _, k := range keys {
			gen(append(h, op{Op: "put", K: k, V: nextV}), nextV+1)
			gen(append(h, op{Op: "get", K: k}), nextV)
			gen(append(h, op{Op: "rem", K: k}), nextV)
		}
	}
	gen(nil, 1)
	// ---- long random histories under height patterns the geometric draw practically never gives
	pats := []struct {
		name string
		h    func(i int, r func(int) int) int
	}{
		{"all tallest", func(i int, r func(int) int) int { return 22 }},
		{"all lowest", func(i int, r func(int) int) int { return 1 }},
		{"alternating lowest and tallest", func(i int, r func(int) int) int { return 1 + 21*(i%2) }},
		{"descending", func(i int, r func(int) int) int { return 22 - i%22 }},
		{"ascending", func(i int, r func(int) int) int { return 1 + i%22 }},
		{"uniform", func(i int, r func(int) int) int { return 1 + r(22) }},
		{"tall with rare low ones", func(i int, r func(int) int) int {
			if r(7) == 0 {
				return 1
			}
			return 18 + r(5)
		}},
	}
	for pi, pat := range pats {
		for _, nk := range []int{6, 40, 300} {
			for rep := 0; rep < common.Pick(2, 12); rep++ {
				r := common.RngN("driven-long", uint64(pi*1000+nk*10+rep))
				ln := []int{120, 400, 1500}[rep%3]
				var h []op
				var draws []int64
				v := 1
				for j := 0; j < ln; j++ {
					k := r.IntN(nk)
					switch x := r.IntN(10); {
					case x < 5:
						h = append(h, op{Op: "put", K: k, V: v})
						draws = append(draws, drawFor(pat.h(len(draws), r.IntN)))
						v++
					case x < 7:
						h = append(h, op{Op: "get", K: k})
					default:
						h = append(h, op{Op: "rem", K: k})
					}
				}
				add(caseT{Site: "driven/long/" + pat.name, Order: orders[(pi+rep)%len(orders)], History: h, Audit: 25, Draws: draws})
			}
		}
	}
	if len(batch) > 0 {
		bubble(t, batch)
	}
	rec.Count("driven_height_cases", int64(n))
	_ = fmt.Sprint
}

//go:build !verif

package skipmon

import "math/rand"

const hookEnabled = false

func (d *drv[K]) setSource(src rand.Source) {}

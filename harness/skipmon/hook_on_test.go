//go:build verif

package skipmon

import (
	"math/rand"

	"github.com/fogfish/golem/maplike/skiplist"
)

const hookEnabled = true

// setSource: the list draws its node heights from src (hook of the verification build, see MANIFEST.hooks)
func (d *drv[K]) setSource(src rand.Source) { skiplist.SetHeightSource[K, int](d.m, src) }

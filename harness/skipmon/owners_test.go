package skipmon

import (
	"fmt"
	"sync"

	"verif/harness/common"
)

// Lists owned by different goroutines. Every list here is used by exactly one goroutine (the structure is not
// concurrent and nothing asks it to be), but several owners work at the same time, each on its own list against its
// own Go map, as independent parts of a program do. A history on a privately owned list answers like a map whatever
// other lists of the process are doing. Runs on the real clock with real parallelism, also under the race detector
// (a report whose two stacks are both in the library is a violation).
func parallelOwners() {
	const owners = 8
	rounds, length := common.Pick(400, 4000), 500
	c := caseT{Site: "owners", Order: "all"}
	rec.Begin("owners", c)
	defer rec.End("owners")
	orders := []string{"int", "rev", "str", "mod", "ptr", "iface", "pct", "f64", "ibytes", "reent"}
	msgs := make([]string, owners)
	cls := make([]string, owners)
	var wg sync.WaitGroup
	start := make(chan struct{})
	for g := 0; g < owners; g++ {
		wg.Add(1)
		go func(g int) {
			defer wg.Done()
			<-start
			r := common.RngN("owners", uint64(g))
			for round := 0; round < rounds && msgs[g] == ""; round++ {
				order := orders[(g+round)%len(orders)]
				step, what := 0, ""
				p := common.Catch(func() {
					d := newDriver(order)
					model := map[int]int{}
					for step = 0; step < length; step++ {
						k := r.IntN(400)
						switch x := r.IntN(10); {
						case x < 6:
							what = "Put"
							d.put(k, step+1)
							model[k] = step + 1
						case x < 8:
							what = "Get"
							if got := d.get(k); got != model[k] {
								cls[g], msgs[g] = "result", fmt.Sprintf("owner %d, %s keys, step %d: Get(%s)=%d, the owner's map has %d", g, order, step, d.keyName(k), got, model[k])
								return
							}
						default:
							what = "Remove"
							if got := d.rem(k); got != model[k] {
								cls[g], msgs[g] = "result", fmt.Sprintf("owner %d, %s keys, step %d: Remove(%s)=%d, the owner's map has %d", g, order, step, d.keyName(k), got, model[k])
								return
							}
							delete(model, k)
						}
					}
					keys := make([]int, 0, len(model))
					for k := range model {
						keys = append(keys, k)
					}
					if c, msg := checkDump(d, d.dump(), keys); c != "" {
						cls[g], msgs[g] = "dump/"+c, fmt.Sprintf("owner %d, %s keys, after %d steps: %s", g, order, length, msg)
					}
				})
				if p != nil {
					cls[g], msgs[g] = "panic", fmt.Sprintf("owner %d, %s keys, step %d (%s) on a list no other goroutine touches: %v", g, order, step, what, p)
				}
				rec.Eval(fmt.Sprint("owners", g, round, order), true)
				rec.Count("operations", int64(length))
				rec.Count("owner_histories", 1)
			}
		}(g)
	}
	close(start)
	wg.Wait()
	for g, m := range msgs {
		if m != "" {
			rec.Violate("C18/owners/"+cls[g], m+fmt.Sprintf(" (%d owners at work, each with a private list)", owners), c)
		}
	}
}

// skipmon — C18: the skip list (staged copy of internal/maplike) against a Go map,
// with structural invariants read from its public String() dump after every
// operation. Node heights come from a PRNG seeded with time.Now(); inside a
// synctest bubble that is the virtual clock, so the harness chooses the seed by
// sleeping to a chosen virtual instant before New — heights vary across cases
// and replay deterministically.
package skipmon

import (
	"bytes"
	"fmt"
	"math"
	"math/rand"
	"os"
	"slices"
	"sort"
	"strconv"
	"strings"
	"testing"
	"testing/synctest"
	"time"

	"verif/harness/common"

	"github.com/fogfish/golem/maplike"
	"github.com/fogfish/golem/maplike/skiplist"
	"github.com/fogfish/golem/pure/ord"
)

type op struct {
	Op string `json:"op"` // put | get | rem
	K  int    `json:"k"`
	V  int    `json:"v,omitempty"`
}

type caseT struct {
	Site    string  `json:"site"`
	Order   string  `json:"order"` // int | rev | str | mod
	HSeed   int64   `json:"hseed"` // virtual nanoseconds since bubble epoch at which New is called
	History []op    `json:"history"`
	Audit   int     `json:"audit"` // full audit every Audit operations (1 = every op)
	Big     *bigT   `json:"big,omitempty"`
	Draws   []int64 `json:"draws,omitempty"` // hook: the first draws of the list's height generator (verification build)
}

var rec *common.Recorder

func TestMain(m *testing.M) {
	rec = common.New("C18", "operation histories (Put fresh value / Get / Remove) on a staged skip list vs a Go map; after every operation the String() dump is parsed and checked "+
		"(level-0 keys strictly ascending under the trait and equal to the model key set; at every level each finger points to the next node of that height, nil at the end); "+
		"all histories over 3 keys up to the length bound x several node-height seeds, plus seed-random long histories over <= 64 keys, for int, reversed-int, modular-order and string keys; "+
		"plus large lists (size oscillating around e^7..e^10 and 2^10..2^14 keys, sliding windows with a new minimum/maximum per round; results compared per operation, dump audited at the turning points); "+
		"distinct by (order, height seed, history); non-trivial = history has a Put followed later by Get/Remove/Put of the same key")
	code := m.Run()
	rec.Finish()
	os.Exit(code)
}

// ---- key sorts: the harness works with int key ids; each order maps ids to keys

type driver interface {
	put(k, v int)
	get(k int) int
	rem(k int) int
	dump() string
	keyName(k int) string
	less(a, b int) bool
}

type drv[K any] struct {
	m    maplike.MapLike[K, int]
	key  func(int) K
	name func(int) string
	lt   func(a, b int) bool
}

func (d *drv[K]) put(k, v int)         { d.m.Put(d.key(k), v) }
func (d *drv[K]) get(k int) int        { return d.m.Get(d.key(k)) }
func (d *drv[K]) rem(k int) int        { return d.m.Remove(d.key(k)) }
func (d *drv[K]) dump() string         { return d.m.(fmt.Stringer).String() }
func (d *drv[K]) keyName(k int) string { return d.name(k) }
func (d *drv[K]) less(a, b int) bool   { return d.lt(a, b) }

func cmpInt(a, b int) ord.Ordering {
	switch {
	case a < b:
		return ord.LT
	case a > b:
		return ord.GT
	}
	return ord.EQ
}

func modKey(a int) [2]int { return [2]int{a % 5, a} }

func newDriver(order string) driver {
	itoa := strconv.Itoa
	id := func(k int) int { return k }
	switch order {
	case "int":
		return &drv[int]{m: skiplist.New[int, int](ord.Int), key: id, name: itoa, lt: func(a, b int) bool { return a < b }}
	case "rev":
		return &drv[int]{m: skiplist.New[int, int](ord.From[int](func(a, b int) ord.Ordering { return cmpInt(b, a) })), key: id, name: itoa, lt: func(a, b int) bool { return a > b }}
	case "mod":
		lt := func(a, b int) bool {
			x, y := modKey(a), modKey(b)
			return x[0] < y[0] || (x[0] == y[0] && x[1] < y[1])
		}
		return &drv[int]{m: skiplist.New[int, int](ord.From[int](func(a, b int) ord.Ordering {
			if lt(a, b) {
				return ord.LT
			}
			if lt(b, a) {
				return ord.GT
			}
			return ord.EQ
		})), key: id, name: itoa, lt: lt}
	case "str":
		// decimal strings: lexicographic order differs from numeric order ("10" < "9")
		sk := func(k int) string { return "k" + itoa(k) }
		return &drv[string]{m: skiplist.New[string, int](ord.String), key: sk, name: sk, lt: func(a, b int) bool { return sk(a) < sk(b) }}
	case "f64":
		// float keys under the IEEE total order (by sign and bits): -0.0 and +0.0 are different keys although == says equal
		fk := func(k int) float64 {
			switch k % 4 {
			case 0:
				return float64(k / 4)
			case 1:
				return -float64(k / 4) // k = 1 gives -0.0
			case 2:
				return float64(k) + 0.5
			}
			return -1 / float64(k)
		}
		bits := func(f float64) int64 {
			b := int64(math.Float64bits(f))
			if b < 0 {
				b = math.MinInt64 - b - 1 // negative floats: reversed and below all positive ones, -0.0 (-1) just below +0.0 (0)
			}
			return b
		}
		return &drv[float64]{m: skiplist.New[float64, int](ord.From[float64](func(a, b float64) ord.Ordering { return cmpInt(int(bits(a)), int(bits(b))) })),
			key: fk, name: func(k int) string { return fmt.Sprint(fk(k)) }, lt: func(a, b int) bool { return bits(fk(a)) < bits(fk(b)) }}
	case "ibytes":
		// interface keys whose dynamic values are byte slices (not comparable with ==), ordered by bytes.Compare
		bk := func(k int) any { return bkey(fmt.Sprintf("b%03d", k)) }
		return &drv[any]{m: skiplist.New[any, int](ord.From[any](func(a, b any) ord.Ordering { return ord.Ordering(bytes.Compare(a.(bkey), b.(bkey))) })),
			key: bk, name: func(k int) string { return fmt.Sprintf("b%03d", k) }, lt: func(a, b int) bool { return fmt.Sprintf("b%03d", a) < fmt.Sprintf("b%03d", b) }}
	case "pct":
		// string keys that contain a per cent sign (percentages, URL-escaped identifiers)
		sk := func(k int) string {
			if k%2 == 0 {
				return itoa(k) + "%"
			}
			return "a%20b" + itoa(k)
		}
		return &drv[string]{m: skiplist.New[string, int](ord.String), key: sk, name: sk, lt: func(a, b int) bool { return sk(a) < sk(b) }}
	case "reent":
		// a trait that consults the list it orders (ranks or aliases kept in the same map are looked up while two keys
		// are compared). It is the natural order of int whatever the look-up returns; Get is a reader and may be
		// called from anywhere, also from inside a Put or a Remove of the same list.
		var m maplike.MapLike[int, int]
		busy := false
		m = skiplist.New[int, int](ord.From[int](func(a, b int) ord.Ordering {
			if m != nil && !busy {
				busy = true
				m.Get((a*31 + b*17 + 5) % 71)
				busy = false
			}
			return cmpInt(a, b)
		}))
		return &drv[int]{m: m, key: id, name: itoa, lt: func(a, b int) bool { return a < b }}
	case "ptr":
		// keys are pointers to records ordered by a field: the trait dereferences its arguments, as traits over
		// pointer keys do; it is only ever given keys that were put or asked for
		tab := map[int]*account{}
		pk := func(k int) *account {
			if a, ok := tab[k]; ok {
				return a
			}
			a := &account{id: k}
			tab[k] = a
			return a
		}
		return &drv[*account]{m: skiplist.New[*account, int](ord.From[*account](func(a, b *account) ord.Ordering { return cmpInt(a.id, b.id) })), key: pk,
			name: func(k int) string { return fmt.Sprintf("&{%d}", k) }, lt: func(a, b int) bool { return a < b }}
	case "iface":
		// interface keys holding values of one dynamic type; the trait asserts the type (a nil interface would panic)
		return &drv[fmt.Stringer]{m: skiplist.New[fmt.Stringer, int](ord.From[fmt.Stringer](func(a, b fmt.Stringer) ord.Ordering { return cmpInt(int(a.(label)), int(b.(label))) })),
			key: func(k int) fmt.Stringer { return label(k) }, name: func(k int) string { return label(k).String() }, lt: func(a, b int) bool { return a < b }}
	}
	panic("order " + order)
}

type account struct{ id int }

// bkey: a slice type (values are not comparable with ==) that prints as one word
type bkey []byte

func (b bkey) String() string { return string(b) }

type label int

func (l label) String() string { return "L" + strconv.Itoa(int(l)) }

// ---- dump parser and structural invariants

type dnode struct {
	key     string
	fingers []string
}

func parseDump(s string) ([]dnode, error) {
	lines := strings.Split(strings.TrimRight(s, "\n"), "\n")
	if len(lines) < 2 || !strings.HasPrefix(lines[0], "--- SkipList") {
		return nil, fmt.Errorf("unexpected dump header %q", lines[0])
	}
	var out []dnode
	for _, l := range lines[1:] {
		if !strings.HasPrefix(l, "{") || !strings.HasSuffix(l, "}") {
			return nil, fmt.Errorf("unexpected node line %q", l)
		}
		body := l[1 : len(l)-1]
		i := strings.Index(body, "\t| ")
		if i < 0 {
			return nil, fmt.Errorf("unexpected node line %q", l)
		}
		out = append(out, dnode{key: body[:i], fingers: strings.Fields(body[i+3:])})
	}
	return out, nil
}

// checkDump returns "" or a description of the violated invariant.
func checkDump(d driver, dump string, modelKeys []int) (string, string) {
	nodes, err := parseDump(dump)
	if err != nil {
		return "dump-format", err.Error()
	}
	head, rest := nodes[0], nodes[1:]
	sorted := slices.Clone(modelKeys)
	sort.Slice(sorted, func(i, j int) bool { return d.less(sorted[i], sorted[j]) })
	want := make([]string, len(sorted))
	for i, k := range sorted {
		want[i] = d.keyName(k)
	}
	got := make([]string, len(rest))
	for i, n := range rest {
		got[i] = n.key
	}
	if !slices.Equal(got, want) {
		return "level0-keys", fmt.Sprintf("level-0 listing %v, live keys in trait order %v", got, want)
	}
	for _, n := range rest {
		if len(n.fingers) == 0 {
			return "height0", fmt.Sprintf("node %s has no forward pointers", n.key)
		}
	}
	// every level is the sub-chain of nodes of height > level
	for lvl := 0; lvl < len(head.fingers); lvl++ {
		prevName, prevF := "head", head.fingers[lvl]
		for _, n := range rest {
			if len(n.fingers) > lvl {
				if prevF != n.key {
					return "finger", fmt.Sprintf("level %d: finger of %s is %s, next node of height > %d is %s", lvl, prevName, prevF, lvl, n.key)
				}
				prevName, prevF = n.key, n.fingers[lvl]
			}
		}
		if prevF != "nil" {
			return "finger", fmt.Sprintf("level %d: last node %s points to %s, want nil", lvl, prevName, prevF)
		}
	}
	for _, n := range rest {
		if len(n.fingers) > len(head.fingers) {
			return "height", fmt.Sprintf("node %s higher than head", n.key)
		}
	}
	return "", ""
}

// ---- running one case (must be called inside a bubble whose clock is <= HSeed)

var epoch = time.Date(2000, 1, 1, 0, 0, 0, 0, time.UTC)

func runCase(c caseT) {
	if d := time.Until(epoch.Add(time.Duration(c.HSeed))); d > 0 {
		time.Sleep(d)
	}
	site := "C18/" + c.Order + "/"
	var d driver
	if p := common.Catch(func() { d = newDriver(c.Order) }); p != nil {
		rec.Violate(site+"new/panic", fmt.Sprint(p), c)
		return
	}
	if len(c.Draws) > 0 {
		if !hookEnabled {
			rec.Inconclusive("a case with driven node heights needs the verification build (tag verif)")
			return
		}
		d.(interface{ setSource(rand.Source) }).setSource(&scripted{draws: c.Draws, rest: rand.NewSource(c.HSeed)})
	}
	model := map[int]int{}
	universe := map[int]bool{}
	nontrivial := false
	maxh := 0
	audit := func(step int) bool {
		for k := range universe {
			if g := d.get(k); g != model[k] {
				rec.Violate(site+"audit-get", fmt.Sprintf("after step %d Get(%s)=%d, map has %d", step, d.keyName(k), g, model[k]), c)
				return false
			}
		}
		return true
	}
	for step, o := range c.History {
		universe[o.K] = true
		_, had := model[o.K]
		var got int
		p := common.Catch(func() {
			switch o.Op {
			case "put":
				d.put(o.K, o.V)
				model[o.K] = o.V
				if had {
					nontrivial = true
				}
			case "get":
				got = d.get(o.K)
			case "rem":
				got = d.rem(o.K)
			}
		})
		if p != nil {
			rec.Violate(site+o.Op+"/panic", fmt.Sprintf("step %d %+v: %v", step, o, p), c)
			return
		}
		if o.Op != "put" {
			if had {
				nontrivial = true
			}
			if got != model[o.K] {
				rec.Violate(site+o.Op+"/result", fmt.Sprintf("step %d %s(%s)=%d, map says %d", step, o.Op, d.keyName(o.K), got, model[o.K]), c)
				return
			}
			if o.Op == "rem" {
				delete(model, o.K)
			}
		}
		keys := make([]int, 0, len(model))
		for k := range model {
			keys = append(keys, k)
		}
		var dump string
		if p := common.Catch(func() { dump = d.dump() }); p != nil {
			rec.Violate(site+"dump/panic", fmt.Sprintf("step %d: %v", step, p), c)
			return
		}
		if cls, msg := checkDump(d, dump, keys); cls != "" {
			rec.Violate(site+"dump/"+cls, fmt.Sprintf("after step %d (%+v): %s", step, o, msg), c)
			return
		}
		rec.Count("dumps_checked", 1)
		if c.Audit > 0 && (step+1)%c.Audit == 0 {
			if !audit(step) {
				return
			}
		}
		if step == len(c.History)-1 {
			if nodes, err := parseDump(dump); err == nil {
				for _, n := range nodes[1:] {
					maxh = max(maxh, len(n.fingers))
				}
			}
		}
	}
	audit(len(c.History))
	rec.Eval(fmt.Sprint(c.Order, c.HSeed, c.History), nontrivial)
	rec.Count("operations", int64(len(c.History)))
	rec.Max("max_node_height_seen", int64(maxh))
	if rec.WantSample() {
		s := c
		if len(s.History) > 24 {
			s.History = s.History[:24]
		}
		rec.Sample(map[string]any{"case": s, "history_len": len(c.History), "final_keys": len(model), "max_height": maxh})
	}
}

func synctest_run(t *testing.T, c caseT) {
	synctest.Test(t, func(t *testing.T) {
		id := fmt.Sprintf("%s-%d-%s-%d", c.Order, c.HSeed, c.Big.Family, c.Big.W)
		rec.Begin(id, c)
		runBig(c)
		rec.End(id)
	})
}

func bubble(t *testing.T, cases []caseT) {
	sort.SliceStable(cases, func(i, j int) bool { return cases[i].HSeed < cases[j].HSeed })
	synctest.Test(t, func(t *testing.T) {
		for _, c := range cases {
			id := fmt.Sprintf("%s-%d-%d", c.Order, c.HSeed, len(c.History))
			rec.Begin(id, c)
			runCase(c)
			rec.End(id)
		}
	})
}

func TestRun(t *testing.T) {
	if common.Replay != "" {
		var c caseT
		if err := common.LoadReplay(&c); err != nil {
			rec.Inconclusive("cannot load replay: " + err.Error())
			return
		}
		if c.Big != nil {
			synctest_run(t, c)
			return
		}
		bubble(t, []caseT{c})
		return
	}
	if common.Batch == 0 {
		parallelOwners()
	}
	if os.Getenv("VERIF_MODE") == "race" {
		return // under the race detector only the owners family runs: everything else is single-goroutine
	}
	bigCases(t)
	drivenCases(t)
	orders := []string{"int", "rev", "str", "mod", "ptr", "iface", "pct", "f64", "ibytes", "reent"}
	// ---- exhaustive: all histories over 3 keys
	depth := common.Pick(5, 6)
	hseeds := common.Pick(6, 20)
	keys := []int{9, 10, 11} // "k10" < "k11" < "k9" as strings; 10%5 < 11%5 < 9%5
	var batch []caseT
	n := 0
	flush := func() {
		if len(batch) > 0 {
			bubble(t, batch)
			batch = batch[:0]
		}
	}
	rng := common.Rng("hseed")
	var gen func(h []op, nextV int)
	gen = func(h []op, nextV int) {
		if len(h) > 0 {
			n++
			if n%common.NBatch == common.Batch {
				for s := 0; s < hseeds; s++ {
					batch = append(batch, caseT{Site: "exh", Order: orders[(n+s)%len(orders)], HSeed: int64(len(batch)+1)*1_000_003 + int64(rng.IntN(1000)), History: slices.Clone(h), Audit: 1})
				}
				if len(batch) >= 2000 {
					flush()
				}
			}
		}
		if len(h) == depth {
			return
		}
		for _, k := range keys {
			gen(append(h, op{Op: "put", K: k, V: nextV}), nextV+1)
			gen(append(h, op{Op: "get", K: k}), nextV)
			gen(append(h, op{Op: "rem", K: k}), nextV)
		}
	}
	gen(nil, 1)
	flush()
	rec.Count("max_exhaustive_history_length", int64(depth))
	rec.Count("max_height_seeds_per_history", int64(hseeds))

	// ---- random long histories
	nrand := common.Pick(60, 600)
	for i := 0; i < nrand; i++ {
		if i%common.NBatch != common.Batch {
			continue
		}
		r := common.RngN("rand", uint64(i))
		nk := []int{2, 4, 8, 16, 64}[r.IntN(5)]
		ln := []int{50, 200, 1000, common.Pick(2000, 5000)}[r.IntN(4)]
		h := make([]op, 0, ln)
		v := 1
		mode := r.IntN(4) // 0 mixed, 1 ascending inserts then removes, 2 descending inserts, 3 put-heavy same keys
		for j := 0; j < ln; j++ {
			k := r.IntN(nk)
			switch mode {
			case 1:
				k = j % nk
			case 2:
				k = nk - 1 - j%nk
			}
			x := r.IntN(10)
			switch {
			case x < 4 || (mode == 3 && x < 7):
				h = append(h, op{Op: "put", K: k, V: v})
				v++
			case x < 7:
				h = append(h, op{Op: "get", K: k})
			default:
				h = append(h, op{Op: "rem", K: k})
			}
		}
		aud := 1
		if ln > 200 {
			aud = 50
		}
		batch = append(batch, caseT{Site: "rand", Order: orders[i%len(orders)], HSeed: int64(i+1) * 7_000_003, History: h, Audit: aud})
		flush()
	}
}

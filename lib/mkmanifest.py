#!/usr/bin/env python3
"""Regenerates /verif/MANIFEST.json from the property table in vlib.py and the texts below."""
import json, os, sys
sys.path.insert(0, os.path.dirname(os.path.abspath(__file__)))
import vlib

ROOT = vlib.ROOT
BASELINE_OFF = "for m in $(cat /w/out/gomods.txt); do MF=$(cd /repo/$m && . /w/out/goenv.sh && gomodflag); (cd /repo/$m && go test $MF -json -vet=off -count=1 -timeout 25m ./...); done"

TEXT = {
 'C17': dict(
   technique='runtime law monitor: Go operators as reference, argument-logging base instances, all pairs/triples of a boundary+random pool',
   text='Every Eq/Ord/ContraMap/From/Monoid entry point is executed on all pairs (and all triples for transitivity) of a pool of boundary and seed-random ints and strings; the oracle is the Go operator or the wrapped function itself, and base instances log their arguments so argument order is observed. Exploration of the input space, exhaustive over the pool. monoid.From is also given semigroups that are themselves monoids with another identity.',
   note='Trusts Go\'s ==, < on int/string. Pool size bounds what is seen (40 values quick, 90 thorough per sort).',
   ref='DESIGN.md §6 C17'),
 'C01': dict(
   technique='generated-program workload (struct shapes + optic derivations) + byte-level neighbour monitor in a canary guard with the compiler\'s layout (selectors) as oracle + twin-structure differential; checkptr (quick) and AddressSanitizer (thorough) underneath',
   text='A seed-driven generator writes Go source: 60 (quick) / 240 (thorough) root struct shapes with up to 12 fields of mixed size and alignment (zero-size, pointers, interfaces, arrays, named types, nested anonymous structs, value embedding to depth 3, embedded named types, tags, duplicate names/types across depths). Every focusable entry is derived by name and by type through ForProduct1..9 / ForSpectrum1..9; each resulting Lens/Reflector runs GetPut/PutGet/PutPut over pairs of pool values inside a heap guard whose every byte is snapshotted around each operation: Get must equal the selector read and write nothing, Put must return its argument, set the field and leave every byte outside [offset,offset+size) of the focus (other fields, padding, both canaries) unchanged; a twin edited through selectors must be DeepEqual. A second allocation mode puts S alone in its heap object for checkptr/ASan. Also derived by entry (NewLens/NewReflector on the i-th entry of the unfolding, reaching shadowed fields) and for two look-alike container types from packages of the same name; value pools include negative zeros and uncomparable dynamic values inside interfaces, compared bit-exactly.',
   note='Trusts the Go compiler for layout (selectors, unsafe.Sizeof) and reflect.DeepEqual for focus values. Shapes are those of the grammar in lib/optgen.py.',
   ref='DESIGN.md §5, §6 C01'),
 'C02': dict(
   technique='generated-program workload + resolution model (first match / must fail) + recover() around every derivation + byte snapshots for wrong dynamic arguments; silently accepted optics are exercised under checkptr/ASan in a guard after the verdict is checkpointed',
   text='For every generated shape: unknown names, focus types no field has, too few names for K >= 2, names whose field has another type (near misses: same size, named vs underlying, any vs concrete both ways, pointer flips), K-tuples with one bad focus, every entry reached through an embedded pointer (by name and by type when it is the first match), and container type parameters *S, []S, int for ForProduct/ForSpectrum/ForShape/BiMapX must all panic at derivation; a Reflector handed S by value, **S, *Other, nil, an int, unsafe.Pointer or uintptr must panic and leave the bytes of the memory it was handed unchanged. Entries crossing a pointer must also be refused by NewLens/NewReflector directly; a Reflector of one of two look-alike containers (same printed type name, different packages) must refuse the other\'s pointer.',
   note='Typed nil *S is not passed (it is a pointer to the container type). Two genuine defects were found and repaired (pointer containers, foci through embedded pointers): see known_findings.json.',
   ref='DESIGN.md §5, §6 C02'),
 'C03': dict(
   technique='generated-program workload + listing model (declaration order, depth-first, keys from tags) vs hseq output; offsets and types from the compiler through selectors and reflect.TypeOf',
   text='For every generated shape hseq.New is compared entry by entry with the specified listing (order, key, Name, Type, PureType, ID = position; RootOffs+Offset = real address difference for entries not crossing a pointer); ForName/ForNameMaybe for every key and absent names, ForType for every type and absent types, New(names...) in requested order, New1..9 and FMap1..9 on random K-tuples (entry i to function i), all against first-match resolution or a loud failure.',
   note='Trusts the listing model in lib/optgen.py (about 20 lines) and the compiler for offsets.',
   ref='DESIGN.md §5, §6 C03'),
 'C04': dict(
   technique='generated-program workload + byte-level monitor on both structures + twin-structure differential for Join/BiMap/BiMapS,B,I,F/Getter/Setter/ForShape2..9/Iso/Morphism; hand-written map-lens monitor',
   text='Join through 1-3 levels of nested struct fields, BiMap with inverse conversion pairs, BiMapS/B/I/F by name and by type, Getter (Put changes no byte), Setter (Put writes the converted value, Get is zero), ForShapeK over disjoint foci of mixed types with value tuples, Iso and Morphism over lists with nil and repeated entries between the shape and a padded twin structure (Forward copies exactly the included foci, Inverse restores the source foci, no byte outside the foci of either structure changes), NewLensM touching only its key. Iso lists include morphisms nested in morphisms.',
   note='For Join the byte-exact region is the outermost intermediate field (value copies may rewrite padding inside it); all other fields are compared through the twin.',
   ref='DESIGN.md §5, §6 C04'),
 'C05': dict(
   technique='environment-move scheduler in synctest bubbles (real goroutines, virtual time, quiescence) + list-function oracle, user-function call log, consumed-element count; Go race detector on',
   text='Every sequential stage runs inside a testing/synctest bubble under scripts of environment moves: all interleavings of the producer program (sends, close) with the consumer programs for inputs of length 0-2 (quick) / 0-3 (thorough), capacities 0-2 and all Take n, then seed-random scripts (inputs <= 40, capacity <= 8, bursts). After send-rest/close/drain the received sequences must equal the list function, every channel must have closed, the user function must have been called exactly on the consumed elements in order, and Take must not remove more than n elements from its input. Exploration, exhaustive over environment scripts on the small bound; library-internal schedules are sampled. ForEach is also run with Lift/Try functions whose visits fail (every element is still visited once).',
   note='Trusts testing/synctest for quiescence and the list oracle in harness/envsched/stages.go. GOMAXPROCS varies per child process.',
   ref='DESIGN.md §4, §6 C05'),
 'C06': dict(
   technique='environment-move scheduler in synctest bubbles + online prefix/closed-early monitor at every quiescent point + goroutine census (runtime.Stack filtered to the bubble and golem frames) + synctest deadlock detection; Go race detector on',
   text='All 14 stages and StdErr-wrapped variants: all interleavings of producer program(s), consumer receives, virtual-clock advances and one cancel for inputs of length 0-2 (quick) / 0-3 (thorough) and capacities 0-3, the same without cancel, and seed-random longer scripts with bursts, absent consumers and unclosed inputs. At every quiescent point what was delivered must be a prefix of the uncancelled result and nothing may have closed early; the completion end game requires all channels closed and no library goroutine left (pacer excepted); the cancellation end game (cancel, inputs closed, nobody receiving) requires the census to be empty within the stage\'s bound of virtual ticks and every channel to report closed when finally drained. A panic in a library goroutine kills the child and is attributed through the write-ahead log. Fail-fast (Lift) and Try failures with nobody reading the error output are included, and a second cancellation end game keeps the consumers draining after cancel (a stage must stop after a handful of further values).',
   note='Known finding F6 (Fold delivers a partial accumulator after cancel) is listed in known_findings.json. Emit\'s exit bound after cancel is 2*cap+2+#failing indices ticks (select may legally prefer a ready send).',
   ref='DESIGN.md §4, §6 C06'),
 'C07': dict(
   technique='fault enumeration: every subset of failing positions up to the bound x stage x mode x capacity x consumer discipline, run in synctest bubbles; list model with failure bitmap; errors are unique ids so exactly-once is decidable; race detector on',
   text='For every input length 0-6 (quick) / 0-8 (thorough) ALL 2^n subsets of failing positions are injected into Map and FMap under Lift/LiftF and Try/TryF at capacities 0,1,2,4 under several consumer disciplines (values first, errors first, alternating, random, bursts, two always-ready consumers); Emit gets every failure bitmap over its call indices in both modes and Unfold fails at every single orbit position (fail-fast); random longer inputs with failure densities 0-100% follow. Values, errors (in order, exactly once), user-function calls (nothing after the first failure under fail-fast), closure of both channels and absence of leftover goroutines are compared with the model. Half of the scripts never close the input: after the failing element was sent and both channels are read, both must close, no goroutine may remain and nothing past the failing element may have been taken from the input. One failure in three wraps context.Canceled/DeadlineExceeded while the pipeline context is alive.',
   note='The proviso of the property (the error channel is read) is honoured: the end game drains both channels concurrently. Unfold under Try is not exercised (the property restricts Unfold to fail-fast).',
   ref='DESIGN.md §6 C07'),
 'C08': dict(
   technique='environment-move scheduler in synctest bubbles with sequence-numbered send completions vs cancel; FIFO/conservation checker on unique ids; porcupine linearizability check of real-time multi-sender/multi-receiver histories against a FIFO-queue model; real-time soak; race detector on',
   text='pipe.New is driven by scripts that empty and refill the queue repeatedly, park values in the input buffer right before cancel (sends performed by the cancelling goroutine itself), cancel with backlog and slow receiver, close the send side with backlog / racing a receive / racing cancel, build backlogs to 10^4, at capacities 0-8 with 1-3 senders. Online: no send may be pending at a quiescent point before cancel/close and nothing closes early; final: the drained sequence is an order-preserving duplicate-free selection of what was sent, every send completed before cancel() is delivered, the receive side closes. 300 (quick) / 6000 (thorough) concurrent real-time histories are checked with porcupine, plus a 60k / 600k value soak. Busy periods of exactly k values (k around powers of two up to 128) followed by refills exercise block/segment boundaries of the queue.',
   note='Scripts in which a user send can race the library\'s close of the send side run in the plain build only (the race detector reports close-vs-send, a documented consequence of the API); everything else also runs under -race. A porcupine timeout is inconclusive.',
   ref='DESIGN.md §6 C08'),
 'C09': dict(
   technique='environment-move scheduler in synctest bubbles; per-element virtual processing delays permute completion order of in-flight calls; multiset oracle on unique ids + per-element call counters + goroutine census; Go race detector, GOMAXPROCS varied per child; real-time soak',
   text='fork.Map/FMap/Filter/Partition/ForEach/Void in Pure and Try modes with 1-8 (16, 64 thorough) workers: all interleavings of producer/consumer/cancel moves for inputs 0-3 with 1-3 workers, then seed-random scripts over inputs up to 60 (200 for 16+ workers) with delay families that make in-flight calls complete in many different orders (evidence counts distinct output orders). Online the delivered values must be a sub-multiset of the sequential result; at completion multiset equality, exactly one call per element, all channels closed, census empty; after cancel the census empties within the bound, channels close, and no element was handed to the user function twice. A send on a closed channel kills the child and is attributed via the write-ahead log; any race report between golem frames is a violation. fork.Map/FMap also run in Lift mode with more failing elements than workers (sub-multiset results, exact closure/census), fork.ForEach with failing visits.',
   note='Fail-fast (Lift) mode is not exercised for fork stages (the property speaks of Try-mode errors). Distinct output orders are counted per child process.',
   ref='DESIGN.md §6 C09'),
 'C10': dict(
   technique='synctest-bubble scheduler + plain left fold oracle over commutative monoids with zero and non-zero identities; virtual delays inside Combine vary the distribution of elements over workers; race detector; real-time soak',
   text='fork.Fold with sum, product of odd numbers, max over negatives, min over positives, bitwise and/or/xor, for 1-8 (16, 64) workers and input lengths 0,1,2,3,par-1,par,par+1,2par+1,17,40 with random 64-bit elements: exactly one value equal to the plain left fold from the identity must be delivered, the channel must close and no goroutine may remain.',
   note='Inputs are chosen so that a wrong starting element or a lost/doubled element changes the result (odd factors, all-negative maxima, ...).',
   ref='DESIGN.md §6 C10'),
 'C11': dict(
   technique='synctest virtual clock: timestamps of user-function calls and of receipts vs tick arithmetic; successive-sequence prefix monitor; cancel at every script position with goroutine census',
   text='Emit and Unfold at capacities 0-8 and frequencies 1 ns, 1 ms, 1 s, 1 h: always-ready consumers (exactly one value per tick, at the tick), idle periods longer than the capacity followed by bursts (back-pressure), random schedules, Try failure bitmaps, cancel inserted at every position. f must be called on consecutive arguments once each, the k-th Emit call not before k ticks and never less than a tick after the previous one, no value available before its tick; after cancel the stage stops and closes within its tick bound. Unfold also runs with a slow step function and a consumer that keeps draining after cancel; Emit\'s consumer also resumes off the tick grid after back-pressure.',
   note='Time is the bubble\'s virtual clock: all bounds are exact arithmetic, no wall clock.',
   ref='DESIGN.md §6 C11'),
 'C12': dict(
   technique='synctest-bubble scheduler; elements tagged (input, index); online interleaving checker and close-implies-complete monitor at every quiescent point; goroutine census; race detector; real-time soak',
   text='Join with 0-5 inputs: all interleavings of per-input producer programs (sends, close) and receives for tiny shapes (no inputs, all empty, 1-3 inputs of 0-2 elements) at capacities 0-2, then seed-random scripts with up to 5 inputs of 0-20 elements, capacities 0-4, bursts and inputs left open until the end game. At every quiescent point the output must be an order-respecting sub-multiset of the inputs and must not be closed while an input is open or undelivered; at completion multiset equality, per-input order, closure and an empty census. Wide joins (6-17 inputs), a single producer goroutine serving all inputs in a fixed order, and a progress monitor (while the consumer drains no send may be left waiting) are included.',
   note='Cancelled runs of Join are covered by C06.',
   ref='DESIGN.md §6 C12'),
 'C13': dict(
   technique='synctest virtual clock: two-pointer sweep over delivery timestamps for the window bound, per-element schedule bounds for the always-available/always-ready case; order/closure oracle; race detector',
   text='Throttling for ops 1-6, intervals 1 ms and 1 s, capacities 0-4, inputs up to 60: always-available input with an always-ready consumer (observed at whole and half intervals), consumer stalled for several intervals then draining (the worst-case burst), idle input then a burst of arrivals, cancel mid-stream, and seed-random arrival/consumer/clock schedules. Delivered must equal the input in order and close with it; before cancel no half-open window of one interval may hold more than 2*ops+1+c deliveries; in the always-available/always-ready case element i must lie in [floor(i/ops)*interval, +interval]. Evidence records the largest window count seen. Intervals also include 200 us and 1 us.',
   note='The bound is checked exactly as stated; tighter bounds the code happens to meet are not demanded.',
   ref='DESIGN.md §6 C13'),
 'C14': dict(
   technique='reference-model monitor: real combinators drained by the documented loop vs strict list interpreter of the same expression tree; per-node callback-argument log; logical step budget for runaway loops',
   text='All expression trees to depth 3 over a leaf/function alphabet plus seed-random trees to depth 7 are built from fresh leaves, drained and run through ForEach with a visitor failing at several positions; result, visited prefix, returned error, callback arguments and source slices are compared with a list interpreter. Exploration, exhaustive on the small bound. A third of the slice leaves are views with spare capacity; the whole backing array must be unchanged.',
   note='Trusts the slice interpreter in harness/itermon. Leaves and function families are those of the grammar; trees larger than 200 nodes are skipped.',
   ref='DESIGN.md §6 C14'),
 'C15': dict(
   technique='reference-model monitor over two sorts (pair.Seq / seq.Seq): (Key(),Value()) lists vs strict list interpreter; per-node callback-argument log with keys disjoint from values',
   text='As C14 over pair.From/TakeWhile/DropWhile/Filter/Map/Plus/Join/ToSeq/FromSeq mixed with plain seq combinators: all trees to depth 3 (quick) / 4 (thorough, smaller alphabet) plus random deeper trees; collected (key,value) pairs, ForEach prefixes and every (key,value) handed to a callback are compared with list semantics.',
   note='Trusts the list interpreter; keys >= 1000 and values < 997 so any key/value swap is visible.',
   ref='DESIGN.md §6 C15'),
 'C16': dict(
   technique='reference-model monitor: callback trace of Morphism.Apply vs tree+open-context-stack model, independent bracket checker, visitor failing at every callback position',
   text='All well-typed programs to length 5 (quick) / 7 (thorough) over a reduced target alphabet and random programs to length 30 over 10 element types are executed through explicit generic instantiations; the full callback trace (kind, depth, type names, tokens, child counts) must equal the model trace, be well bracketed, and stop exactly at the failing callback returning its error. Exploration, exhaustive on the small bound. The universe includes pointer-over-slice types and duct.TypeOf is compared with independently written normalized names.',
   note='Trusts the reference model in harness/ductmon and duct.TypeOf for the expected names (as the property states). Deferred flags of AstSeq are not compared (not part of the statement).',
   ref='DESIGN.md §6 C16'),
 'C18': dict(
   technique='reference-model monitor (Go map) + structural invariant checker over the public String() dump after every operation; node-height PRNG seeded through the synctest virtual clock',
   text='All histories of Put/Get/Remove over 3 keys to length 5 (quick) / 6 (thorough) under several node-height seeds, and random histories up to 5000 operations over up to 64 keys, for int, reversed, modular and string orders; every result is compared with a map and every dump is checked for sorted level-0 keys equal to the live key set and for each level being the sub-chain of nodes of that height.',
   note='Built from a staged copy of internal/maplike. Values are checked through Get audits (values are not in the dump).',
   ref='DESIGN.md §6 C18'),
 'C19': dict(
   technique='lock-step differential monitor: list and slice implementations vs immutable-slice model, re-extracting every sequence ever created after every step (persistence)',
   text='All scripts of New/Cons/Tail to length 5 (quick) / 7 (thorough) over a growing pool of live sequences and random scripts to 300 steps; after each step every sequence of both implementations is extracted with IsEmpty/Head/Tail and Length/IsEmpty/Head/Fold (non-commutative, non-zero empty) are compared with the model. Random scripts include New of 31..1025 elements.',
   note='Built from a staged copy of internal/seq. Head/Tail never applied to empty sequences.',
   ref='DESIGN.md §6 C19'),
 'C20': dict(
   technique='trace-function monitor: result string is the application order; per-function call counters and argument logs; affine non-commuting family as second witness',
   text='For N = 2..20 the staged PipeN is applied to trace functions (same type and one distinct type per stage) and to affine maps with seed-chosen coefficients for hundreds of arguments; result, per-function call count (exactly 1) and the argument each function received are compared with the left-to-right composition. Families over interface types with nil values, a stage re-entering the composed function, and concurrent calls of one composed function are included; the distinct-type-per-stage families are compiled behind a build tag so that a signature that no longer type-checks is reported and the rest still runs.',
   note='Built from a staged copy of internal/pipe (package pure).',
   ref='DESIGN.md §6 C20'),
}


# what the adversarial (fifth) wave of seeded changes added, per property (DESIGN.md §11.4)
EXTRA = {
 'C01': 'Two wide containers per program cross 64 and 128/256 unfolded entries inside a value-embedded and a pointer-embedded struct (lenses and reflectors by name and by entry around the threshold); foci of 320-1100 bytes; pointer-holding values are handed from container to container through the optic only while the collector runs back to back, with GODEBUG=gccheckmark=1,clobberfree=1 in the children (a store without write barrier is the runtime\'s fatal checkmark report).',
 'C02': 'Entries behind the embedded pointer of the wide containers (unfolding positions past 64 / 128 / 256) must be refused by name and by entry.',
 'C03': 'Every root shape is also unfolded as a function-local type of the same printed name with another layout, right after the package-level one in the same process (anything remembered per type name shows).',
 'C04': 'Join also goes through struct-typed fields promoted from value-embedded structs (outer lens with a root offset) and through intermediates of 320-1100 bytes.',
 'C05': 'Programs at scale: Partition halves collected one after the other in both orders, a five-stage chain with error channels read to their end first, long Fold, and Seq followed by the caller refilling its slice, for lengths/capacities over 2^k-1, 2^k, 2^k+1 and round numbers up to 4097 (65537 thorough); a library goroutine racing with the caller\'s write to its own slice is reported as race/retained-argument.',
 'C06': 'One failure value in four has an Error method that panics, and typed-nil *T failures go through Map, Map+StdErr and fork.Map+StdErr: no stage may ask a failure for its text.',
 'C07': 'Morphism values (Lift/Try/LiftF/TryF results) are long-lived: two cases in three take theirs from a process-wide registry shared by all cases of the child process, so state kept inside a reused value shows in a later case.',
 'C08': 'Busy periods of exactly N queued values, N over 2^k-1, 2^k, 2^k+1 up to 4097 (65537), each followed by further sends, drained at once or in two steps, ended by close or cancel, at capacities over the same thresholds.',
 'C09': 'Programs at scale with 1-129 (1025 thorough) workers: an outage under Lift (every element of the second half fails; values read to their end, then errors; or nobody receives and cancel must release every goroutine) and Try-mode multiset equality.',
 'C10': 'The same worker counts x monoids with non-zero identities x lengths around the worker count and long enough for one worker to fold more than 1024 / 4096 elements.',
 'C11': 'Long runs (255-1025 ticks, 8193 thorough) with a consumer that falls behind once or a slow function; a source that fails on every index from N on, errors read, then cancel (gone within 2*cap+200 ticks).',
 'C12': 'Join with up to 257 (2049) inputs: one producer feeding unbuffered inputs round-robin, many quiet feeds with one element on the last, and the caller reusing its slice of inputs right after Join returned.',
 'C13': 'Rates over 2^k-1, 2^k, 2^k+1 up to 4097 (65537) and 1500, 2500, 7500, 12345 with ops*1.5 elements; contexts carrying a far deadline, a value, or a deadline at every half interval (bound checked up to the deadline).',
 'C14': 'Scale families: left- and right-nested Plus chains of 1-257 (4097) operands, towers of one combinator up to 129 (1025) high, leaves up to 4097 (65537) elements, and sequences of 3 (20) million elements through every combinator under a 64 MB goroutine stack limit.',
 'C15': 'The same scale families over pair.Seq (chains of pair.Plus, towers, FromSeq over long leaves, multi-million element sequences under the 64 MB stack limit).',
 'C18': 'Large lists: size oscillation around e^7..e^10 and 2^10..2^14 keys and sliding windows whose every new key is the list minimum / maximum, 0.4-0.7 million operations each (4-6 million thorough), Get right after every Put, dump audit at the turning points.',
}
EXTRA6 = {
 'C01': 'After the sequential rounds every 16th optic is used by 4 goroutines at once, each on its own guarded structure (shared-optic).',
 'C02': 'Must-fail derivations through an embedded pointer are preceded, in the same process, by valid derivations with each embedded struct type as the container.',
 'C04': 'Every composed optic is also used by 4 goroutines at once, each on its own structure; Join also focuses fields promoted inside the intermediate.',
 'C05': 'Every sequential stage also runs over zero-size, string, pointer, map, large-struct and interface element types, with in-place monoids over reference values, and with producer and consumers pausing from a millisecond to an hour of virtual time.',
 'C06': 'Failure values include an uncomparable dynamic type; the Emit outage program runs with StdErr as the error reader; element-type and slow-party programs for the sequential stages, New and the sources.',
 'C08': 'pipe.New over zero-size, string, pointer, map, large-struct, interface and bool element types, and with a slow producer/receiver.',
 'C09': 'fork stages over the same element types; slow workers and consumers.',
 'C10': 'Monoids over reference values that accumulate in place (counter object, map), Empty() handing out a fresh accumulator, the monoid value used for two folds, 1-33 workers.',
 'C11': 'Emit and Unfold over the element types.',
 'C12': 'Join over the element types; one input read by two copiers (passed twice or to two Joins), closed while both drain.',
 'C13': 'Idle periods of 0-10 intervals followed by bursts under cancellable, far-deadline, Background, TODO and WithoutCancel contexts; Throttling over the element types.',
 'C16': 'A child process starts with 16 goroutines naming 192 fresh pointer/slice shapes and building pipelines at once (cold start; also under the race detector); every sequence node handed to a callback is visited again through Ast.Apply and must reproduce its segment of the trace.',
 'C18': 'Key sorts include pointers to records and interface values; tide family (fill to 300-140000 keys, re-index the oldest quarter, drain, repeat) and oscillation around e^11 and 2^16 keys.',
}
for _pid, _t in EXTRA6.items():
    EXTRA[_pid] = EXTRA.get(_pid, '') + ' ' + _t
EXTRA7 = {
 'C01': 'Every other root shape is primed: once per process all its entries are derived by entry, by name and by type before a case\'s own request.',
 'C03': 'The listing returned by hseq.New is reordered, overwritten and cut by the caller before the type is unfolded again.',
 'C04': 'Join chains nested to the left and to the right whose head is a map lens or a BiMap-converted lens.',
 'C05': 'Volumes of 2^18+1 and 2^20+7 elements (2^22+1 thorough) through Seq with buffer reuse, ToSeq from a live producer, a stage chain and Fold; Take/TakeWhile/Seq/ToSeq also through package fork\'s wrappers.',
 'C06': 'Every stage built under an already cancelled or expired context (nobody receiving); Join copiers racing for the last output slot, then close and cancel with nobody receiving (300 rounds per program).',
 'C08': 'A backlog of 2^18+1 and 2^20+7 values (2^22+1 thorough) produced first and consumed afterwards; pipe.New under a context that is already done.',
 'C09': 'fork stages built under a context that is already done.',
 'C10': 'Folds of 2^18+1 ... 2^21 elements with 1-3 workers; 32 KiB histogram values with 1024, 1025 and 1500 workers.',
 'C11': 'Emit and Unfold through package fork\'s wrappers as well; under contexts already done at the call; Emit under a deadline at every quarter tick; Emit on the real clock (lower bounds only: no call or value before its tick, calls one tick apart).',
 'C12': 'fork.Join as a second variant of every Join program; a pre-buffered input of 2^18+1 / 2^20+7 elements (per-input order); thorough: 4200 inputs of 64 KB elements.',
 'C13': 'fork.Throttling as a second variant; Throttling on the real clock (3000-6000 elements at 1 ms), judged by lower bounds only (never earlier than the rate allows, never more per window than stated).',
 'C14': 'Predicate families with memory (first occurrence, every third call), one instance per node and evaluation; once the ForEach visitor has returned its error no callback of the expression may run.',
 'C15': 'Predicate families with memory over pairs; the same stop-after-error monitor for pair.ForEach.',
 'C16': 'Sequence nodes are visited again from depth 0 and from a deeper level too (same callbacks, shifted depths) and with a visitor failing at the last callback.',
 'C18': 'Node heights are steered: among 96 clock seeds x 10^6 draws of the seeded generator the largest and the smallest draw are located and the histories reaching exactly those puts are run; string keys containing a per cent sign.',
 'C20': 'Round-trip pipelines (argument and result of one type, stages through a second type).',
}
for _pid, _t in EXTRA7.items():
    EXTRA[_pid] = EXTRA.get(_pid, '') + ' ' + _t
EXTRA8 = {
 'C01': 'NaN and infinities among the values; blank fields, embedded interfaces and fields repeated behind embedded structs in the shape grammar.',
 'C02': 'A function-local type that shadows the field\'s named type is requested as focus type after the valid derivation.',
 'C04': 'Join whose outer optic computes its map (a text field decoded through BiMap) with a map lens inside.',
 'C06': 'Callbacks that end their goroutine (runtime.Goexit, as t.Fatal does) at the first, a middle and the last element of every stage; one unshared morphism in three is a user struct embedding the library-made F/FF.',
 'C07': 'Decorated morphisms (user structs embedding a Lift/Try value and overriding Apply).',
 'C09': 'Callbacks that end their worker\'s goroutine: the outputs close and the other workers deliver the other elements.',
 'C14': 'From values lifted once for the whole process and used in many places; every expression is also used as an operand of discarded Plus/Map expressions before it is drained.',
 'C15': 'The same for pair.From values and pair.Plus/Map.',
 'C16': 'Lifted arguments as L1/L2 values, zero values, or values converted from other type parameters.',
 'C18': 'Key sorts include floats with both zeros under the IEEE total order and interface keys holding slices.',
 'C20': 'A supplied function panics at stage k and the caller recovers: later calls are whole.',
}
for _pid, _t in EXTRA8.items():
    EXTRA[_pid] = EXTRA.get(_pid, '') + ' ' + _t
EXTRA9 = {
 'C04': 'A Getter over a map lens (absent key, nil map) and over a Setter: Put changes nothing.',
 'C06': 'Degenerate parameters (interval / frequency 0 and negative, Take n <= 0) through both packages.',
 'C07': 'Callbacks that end their goroutine in Map, FMap, Emit and Unfold.',
 'C09': 'Workers all leaving their call at the same moment with 0-2 free output slots, then close and cancel with nobody receiving.',
 'C12': 'Join over an already-closed input and an open one, 60 000 rounds on the real scheduler: the output may not report closed.',
 'C13': 'Intervals of 7 ns to 100 us that the rate does not divide, 6000 batches; intervals of zero and below.',
 'C17': 'Strings that share storage (prefixes, suffixes, empty slices of one buffer, and their clones).',
 'C20': 'First evaluations of a freshly composed function from 6 goroutines at once, many fresh pipelines per arity.',
}
for _pid, _t in EXTRA9.items():
    EXTRA[_pid] = EXTRA.get(_pid, '') + ' ' + _t
EXTRA10 = {
 'C04': 'Empty non-nil byte slices through BiMapB in both directions.',
 'C05': 'Partition over an input that is filled only after the stage was built, halves collected one after the other.',
 'C07': 'Try mode with an error reader that pauses up to an hour after each error (virtual time): one error per failing element.',
 'C09': 'fork.Map / fork.FMap under Try with slow error readers.',
 'C11': 'Consumers that keep reading after cancel or a deadline stop after 200 further values and report.',
 'C18': 'Eight goroutines, each owning a private list and a private map, at work at the same time, also under the race detector.',
}
for _pid, _t in EXTRA10.items():
    EXTRA[_pid] = EXTRA.get(_pid, '') + ' ' + _t
EXTRA11 = {
 'C02': 'Embedded pointers hidden by selector rules (diamond, shadowed) and pointer-then-value embedding: every derivation behind them is refused.',
 'C04': 'Composed optics (BiMapX, ForShapeN, Join, Getter, Setter) over foci behind hidden embedded pointers are refused.',
 'C05': 'FMap arrows that keep what they bound to the context of an earlier call (AfterFunc, a helper stage). Decorators count their calls.',
 'C07': 'The library\'s own StdErr as the error reader of Try stages at capacities 0, 1, 3.',
 'C08': 'pipe.New under contexts that can never be cancelled, closed by the sender with a backlog.',
 'C09': 'Counting decorators at every worker count including one.',
 'C13': 'The output closes at the instant of the last delivery once the input is closed; idle periods of 65 and 1000 intervals.',
 'C14': 'Flat-map functions whose results are joins of their own.',
 'C15': 'Flat-map functions whose results are joins of their own (seq.Join, pair.Join, ToSeq, FromSeq inside each other).',
 'C17': 'ContraMap over interface, pointer, func and map types with nil arguments and total projections.',
 'C18': 'A trait that reads the list it orders; validated table of clock seeds with a height draw below e^-22.',
 'C19': 'Element types: any (slice-valued elements included), 16 KiB arrays, struct{}, strings, pointers, slices.',
 'C20': 'Zero-size argument, intermediate and result types; the composed function is called repeatedly.',
}
for _pid, _t in EXTRA11.items():
    EXTRA[_pid] = EXTRA.get(_pid, '') + ' ' + _t
EXTRA12 = {
 'C01': 'Foci 64 KiB and more into the container; a struct embedded by value after a pointer-typed field.',
 'C02': 'The same far and nested foci: derivations succeed and stay in bounds.',
 'C03': 'Fields embedded through an alias, a generic instantiation and a predeclared type are known by their field names.',
 'C05': 'Request/response exchanges: a stage never sits on a result while its consumer waits.',
 'C09': 'Request/response exchanges through fork.Map and fork.Filter.',
 'C10': 'Hundreds of in-place folds in a row with up to 33 workers; races between Combine calls are attributed to the library.',
 'C12': 'Join of 65535 to 70001 inputs; struct{} inputs of capacities up to MaxInt.',
 'C17': 'monoid.From without a semigroup still has the given Empty.',
 'C19': 'Sequences of 2^20 (2^22) elements under a 32 MB stack limit.',
}
for _pid, _t in EXTRA12.items():
    EXTRA[_pid] = EXTRA.get(_pid, '') + ' ' + _t
EXTRA13 = {
 'C01': 'The first use of every fresh optic comes from four goroutines at once.',
 'C02': 'Pointers convertible to *S (defined types over S, defined pointer types) as wrong arguments of a Reflector.',
 'C03': 'New with empty lists of names of every provenance.',
 'C04': 'Identity (storage, length, capacity) of the slice through BiMapB.',
 'C05': 'Take with counts up to MaxInt; stages over struct{} channels of capacities up to 2^62.',
 'C07': 'StdErr between two Try stages keeps the capacity; values-first and errors-first readers.',
 'C10': 'Combine calls that wait for each other (a barrier of par combinations; one worker held while the others fold the rest).',
 'C13': 'Rates of 2^40 and MaxInt per interval on the real clock (a call that never returns ends inconclusive).',
 'C14': 'Interface element types with nil elements.',
 'C16': 'Visitors failing with nil-valued error values; function payloads whose signature differs from the type parameters.',
 'C17': 'Empty() of slice monoids is the very slice given.',
 'C18': 'Driven node heights through the build-tagged hook: every height configuration of small histories, draws at the ends of the range and at the thresholds of the level table.',
 'C19': 'One sequence walked by four goroutines at once.',
 'C20': 'Compositions stored and used as stages of later compositions.',
}
for _pid, _t in EXTRA13.items():
    EXTRA[_pid] = EXTRA.get(_pid, '') + ' ' + _t
for _pid, _t in EXTRA.items():
    TEXT[_pid]['text'] += ' ' + _t
TEXT['C09']['note'] = 'Fail-fast (Lift) mode is exercised at scale only for closure, no-leak and "errors only for failing elements" (which workers fail first is not determined); the multiset verdict is for Pure and Try modes. Distinct output orders are counted per child process.'
TEXT['C13']['note'] += ' The real-clock soak judges lower bounds only, which machine load cannot break.'
TEXT['C18']['note'] += ' Steering uses the reproducibility of math/rand\'s seeded source to choose histories; it is not part of the oracle.'
TEXT['C16']['note'] += ' Nodes handed to callbacks are taken to be visitable ASTs (duct.Ast), whose visit reproduces their part of the trace.'
TEXT['C04']['note'] += ' An optic value is taken to be usable from several goroutines at once on distinct structures (optics are stateless values).'
TEXT['C15']['note'] += ' The stack limit of the long-sequence family extrapolates linearly: stack proportional to the skipped elements overflows the default 1 GB limit at a few 10^7 elements.'
TEXT['C14']['note'] += ' The stack limit of the long-sequence family extrapolates linearly (see C15).'
TEXT['C19']['note'] = TEXT['C19'].get('note', '') + ' The 32 MB stack limit of the long-sequence case extrapolates linearly: a frame per element overflows the default 1 GB limit at a few million elements more.'

def main():
    checks, na = [], []
    props = [json.loads(l) for l in open(os.path.join(ROOT, 'properties.jsonl'))]
    for p in props:
        pid = p['id']
        if pid in vlib.PROPS and pid in TEXT:
            cfg, t = vlib.PROPS[pid], TEXT[pid]
            checks.append(dict(
                property_id=pid,
                quick_cmd='./check %s quick' % pid,
                thorough_cmd='./check %s thorough' % pid,
                evidence_file='/verif/evidence/%s.json' % pid,
                replay_cmd_template='./check %s --replay {path}' % pid,
                engine=cfg['harness'],
                level_claimed=dict(category=cfg['level'], text=t['text'], design_ref=t['ref']),
                level_note=t['note'],
                technique=t['technique']))
        else:
            na.append(dict(property_id=pid, reason='check not built yet in this snapshot (runtime monitoring applies; see DESIGN.md §6) — not claimed until its monitor exists and is silent on the unchanged tree'))
    engines = {}
    for pid, cfg in vlib.PROPS.items():
        engines.setdefault(cfg['harness'], []).append(pid)
    man = dict(
        version=1,
        setup_cmd='./check --setup',
        hooks=dict(guard='verif', enable='one hook: internal/maplike/skiplist/verif_hook.go (//go:build verif) adds SetHeightSource, which lets the C18 harness choose the draws a list takes its node heights from; the C18 check stages internal/maplike and builds it with -tags verif. Every other check observes golem at its API boundary, through the Go runtime (race detector, checkptr, ASan, testing/synctest) and on staged copies, with no tag',
                   baseline_off_cmd=BASELINE_OFF, source_commits=['667bcf2'], add_only=True),
        engines=[dict(name=h, path='harness/' + h, serves_properties=sorted(ps), kind_free_text=ENGINE_TEXT.get(h, '')) for h, ps in sorted(engines.items())],
        checks=checks,
        not_applicable=na,
        notes='Technique family: runtime monitoring and sanitizers. Driver: ./check <ID> quick|thorough|--replay <file>. Known findings: known_findings.json. Seeded breaking changes used for self-validation: seeded/.')
    json.dump(man, open(os.path.join(ROOT, 'MANIFEST.json'), 'w'), indent=1)
    print('MANIFEST.json: %d checks, %d not_applicable' % (len(checks), len(na)))

ENGINE_TEXT = {
 'optgen': 'engine B: lib/optgen.py generates Go programs (struct shapes, optic derivations, selector oracles); harness/optrt is the byte-level monitor; built with checkptr / ASan',
 'envsched': 'engine A: environment-move scheduler inside testing/synctest bubbles, online/offline monitors, goroutine census, race detector',
 'puremon': 'law monitors with Go operators as oracle',
 'itermon': 'expression-tree interpreter vs real iterator combinators',
 'ductmon': 'typed-program interpreter (generated instantiation table) vs AST reference model',
 'skipmon': 'skip list vs map model + dump invariants, inside synctest bubbles',
 'seqmon': 'persistent sequence ADT, two implementations in lock step',
 'ipipemon': 'PipeN trace-function monitor',
}

if __name__ == '__main__':
    main()

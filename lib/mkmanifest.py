#!/usr/bin/env python3
"""Regenerates /verif/MANIFEST.json from the property table in vlib.py and the texts below."""
import json, os, sys
sys.path.insert(0, os.path.dirname(os.path.abspath(__file__)))
import vlib

ROOT = vlib.ROOT
BASELINE_OFF = "for m in $(cat /w/out/gomods.txt); do MF=$(cd /repo/$m && . /w/out/goenv.sh && gomodflag); (cd /repo/$m && go test $MF -json -vet=off -count=1 -timeout 25m ./...); done"

TEXT = {
 'C17': dict(
   technique='runtime law monitor: Go operators as reference, argument-logging base instances, all pairs/triples of a boundary+random pool',
   text='Every Eq/Ord/ContraMap/From/Monoid entry point is executed on all pairs (and all triples for transitivity) of a pool of boundary and seed-random ints and strings; the oracle is the Go operator or the wrapped function itself, and base instances log their arguments so argument order is observed. Exploration of the input space, exhaustive over the pool.',
   note='Trusts Go\'s ==, < on int/string. Pool size bounds what is seen (40 values quick, 90 thorough per sort).',
   ref='DESIGN.md §6 C17'),
}

def main():
    checks, na = [], []
    props = [json.loads(l) for l in open(os.path.join(ROOT, 'properties.jsonl'))]
    for p in props:
        pid = p['id']
        if pid in vlib.PROPS and pid in TEXT:
            cfg, t = vlib.PROPS[pid], TEXT[pid]
            checks.append(dict(
                property_id=pid,
                quick_cmd='./check %s quick' % pid,
                thorough_cmd='./check %s thorough' % pid,
                evidence_file='/verif/evidence/%s.json' % pid,
                replay_cmd_template='./check %s --replay {path}' % pid,
                engine=cfg['harness'],
                level_claimed=dict(category=cfg['level'], text=t['text'], design_ref=t['ref']),
                level_note=t['note'],
                technique=t['technique']))
        else:
            na.append(dict(property_id=pid, reason='check not built yet in this snapshot (runtime monitoring applies; see DESIGN.md §6) — not claimed until its monitor exists and is silent on the unchanged tree'))
    engines = {}
    for pid, cfg in vlib.PROPS.items():
        engines.setdefault(cfg['harness'], []).append(pid)
    man = dict(
        version=1,
        setup_cmd='./check --setup',
        hooks=dict(guard='verif', enable='no hooks: checks observe golem at its API boundary, through the Go runtime (race detector, checkptr, ASan, testing/synctest) and on staged copies; nothing in /repo is built with a tag',
                   baseline_off_cmd=BASELINE_OFF, source_commits=[], add_only=True),
        engines=[dict(name=h, path='harness/' + h, serves_properties=sorted(ps), kind_free_text=ENGINE_TEXT.get(h, '')) for h, ps in sorted(engines.items())],
        checks=checks,
        not_applicable=na,
        notes='Technique family: runtime monitoring and sanitizers. Driver: ./check <ID> quick|thorough|--replay <file>. Known findings: known_findings.json. Seeded breaking changes used for self-validation: seeded/.')
    json.dump(man, open(os.path.join(ROOT, 'MANIFEST.json'), 'w'), indent=1)
    print('MANIFEST.json: %d checks, %d not_applicable' % (len(checks), len(na)))

ENGINE_TEXT = {
 'puremon': 'law monitors with Go operators as oracle',
}

if __name__ == '__main__':
    main()

"""Engine B generator: from a seed, writes a Go program (package main) that declares struct
shapes, derives optics / unfoldings for them with the real golem packages and checks each
against selector-based oracles through harness/optrt. The model here never computes memory
layout: the Go compiler is the layout oracle (selectors, unsafe.Offsetof-free address
arithmetic on &s.path). What the model does decide: the flattened listing of a shape, which
entry a by-name / by-type request resolves to, and whether a derivation must fail."""
import random, hashlib

# ----------------------------------------------------------------------------- field types

class Ty:
    def __init__(self, go, canon, vals, zero=None, cmp_ok=True):
        self.go, self.canon, self.vals, self.zero = go, canon, vals, zero
        self.tid = 't' + hashlib.md5(go.encode()).hexdigest()[:8]

def B(go, vals, canon=None, zero=None):
    return Ty(go, canon or go, vals, zero)

BASE = [
    B('bool', ['false', 'true', 'true', 'false']),
    B('int8', ['0', '1', '-1', '-128', '127', '5']),
    B('int16', ['0', '1', '-1', '-32768', '32767', '300']),
    B('int32', ['0', '1', '-1', '-2147483648', '2147483647', '70000']),
    B('int64', ['0', '1', '-1', '-9223372036854775808', '9223372036854775807', '1234567890123']),
    B('int', ['0', '1', '-1', '-9223372036854775808', '9223372036854775807', '42']),
    B('uint8', ['0', '1', '255', '7']),
    B('uint16', ['0', '1', '65535', '513']),
    B('uint64', ['0', '1', '1<<63', '^uint64(0)']),
    B('uintptr', ['0', '1', '0xdeadbeef']),
    B('float32', ['0', '1.5', 'float32(math.Copysign(0, -1))', '-2.25', '3.4e38', 'float32(math.NaN())', '0']),
    B('float64', ['0', 'math.Copysign(0, -1)', '1.5', '-2.25', '1.7e308', '5e-324', 'math.NaN()', 'math.Inf(-1)', '0']),
    B('complex64', ['0', 'complex(float32(math.Copysign(0, -1)), 0)', 'complex(1, 2)', 'complex(-3.5, 4)']),
    B('complex128', ['0', 'complex(0, math.Copysign(0, -1))', 'complex(1, 2)', 'complex(-3.5, 4e100)', 'complex(math.NaN(), 1)']),
    B('string', ['""', '"a"', '"h\\u00e9llo"', '"a longer string value 0123456789"']),
    B('[]byte', ['nil', '[]byte{}', '[]byte{1, 2, 3}', '[]byte("xyz")'], canon='[]uint8'),
    B('[]int', ['nil', '[]int{1}', '[]int{1, 2, 3}']),
    B('[3]int16', ['[3]int16{}', '[3]int16{1, 2, 3}', '[3]int16{-1, 0, 32767}']),
    B('[0]int', ['[0]int{}', '[0]int{}']),
    B('[2]string', ['[2]string{}', '[2]string{"a", "b"}', '[2]string{"", "zz"}']),
    B('struct{}', ['struct{}{}', 'struct{}{}']),
    # large foci / large intermediate structs (size thresholds of copy-avoiding fast paths: 128, 256, 1024 bytes)
    B('[40]int64', ['[40]int64{}', '[40]int64{1, 2, 39: -1}', '[40]int64{0: -9, 20: 5, 39: 7}']),
    B('[33]string', ['[33]string{}', '[33]string{"a", "b", 32: "last"}', '[33]string{16: "mid", 32: "z"}']),
    B('[1100]byte', ['[1100]byte{}', '[1100]byte{1, 2, 3, 1099: 9}', '[1100]byte{500: 7}'], canon='[1100]uint8'),
    B('*int', ['nil', 'pInt1', 'pInt2']),
    B('*string', ['nil', 'pStr1', 'pStr2']),
    B('map[string]int', ['nil', 'm1', 'm2']),
    B('any', ['nil', '1', '"s"', '2.5', 'math.NaN()', 'pInt1', '[2]int{1, 2}', '[]int{7}', '[]int{8, 9}', 'map[string]int{"z": 1}', 'map[string]int{"y": 2}'], canon='interface {}'),
    B('error', ['nil', 'errA', 'io.EOF']),
    B('fmt.Stringer', ['nil', 'strImpl("a")', 'strImpl("bb")']),
    B('chan int', ['nil', 'ch1', 'ch2']),
    B('MyStr', ['MyStr("")', 'MyStr("q")', 'MyStr("named")'], canon='main.MyStr'),
    B('MyInt', ['MyInt(0)', 'MyInt(-7)', 'MyInt(1 << 30)'], canon='main.MyInt'),
    B('MyBytes', ['MyBytes(nil)', 'MyBytes{9, 8}', 'MyBytes("ab")'], canon='main.MyBytes'),
    B('MyF', ['MyF(0)', 'MyF(math.Copysign(0, -1))', 'MyF(2.5)', 'MyF(-1e9)', 'MyF(math.NaN())'], canon='main.MyF'),
    B('MyI8', ['MyI8(0)', 'MyI8(-128)', 'MyI8(127)'], canon='main.MyI8'),
    # two packages with the same package name declaring a type of the same name: reflect's String() is "x.Str" for both
    B('xa.Str', ['xa.Str("")', 'xa.Str("pa")', 'xa.Str("from package a")'], canon='optgen/sa/x.Str'),
    B('xb.Str', ['xb.Str("")', 'xb.Str("pb")', 'xb.Str("from package b")'], canon='optgen/sb/x.Str'),
    B('[]xa.Str', ['nil', '[]xa.Str{"1"}', '[]xa.Str{"1", "2"}'], canon='[]optgen/sa/x.Str'),
    B('[]xb.Str', ['nil', '[]xb.Str{"3"}', '[]xb.Str{"3", "4"}'], canon='[]optgen/sb/x.Str'),
    B('struct {\n\tA int8\n\tB int64\n}', ['struct {\n\tA int8\n\tB int64\n}{1, 2}', 'struct {\n\tA int8\n\tB int64\n}{-1, 5}', 'struct {\n\tA int8\n\tB int64\n}{}'], canon='struct { A int8; B int64 }'),
]
BYGO = {t.go: t for t in BASE}
EMBEDDABLE_NAMED = ['MyStr', 'MyInt', 'MyF', 'MyI8', 'MyBytes', 'fmt.Stringer', 'error']   # named non-struct types that may be embedded (interfaces too: their methods are promoted, the field is an entry like any other)

# near misses: focus types that must NOT be accepted for a field of the key type
NEAR = {
    'xa.Str': ['xb.Str', 'string', 'MyStr'], 'xb.Str': ['xa.Str', 'string'], '[]xa.Str': ['[]xb.Str', '[]byte'], '[]xb.Str': ['[]xa.Str'],
    'int': ['int64', 'uint64', 'uintptr', 'any'], 'int64': ['int', 'uint64', 'float64'], 'int32': ['MyInt', 'float32', 'uint16'],
    'MyInt': ['int32', 'int'], 'string': ['MyStr', '[]byte', 'any', '[2]string'], 'MyStr': ['string'], '[]byte': ['MyBytes', 'string', '[]int'],
    'MyBytes': ['[]byte'], 'float64': ['MyF', 'float32', 'int64', 'complex64'], 'MyF': ['float64'], 'int8': ['MyI8', 'uint8', 'bool'], 'MyI8': ['int8'],
    'uint8': ['int8', 'bool'], 'bool': ['uint8', 'int8'], 'any': ['int', 'error', 'fmt.Stringer', 'string'], 'error': ['any', 'fmt.Stringer'],
    'fmt.Stringer': ['any', 'error'], '*int': ['*string', 'int', 'uintptr'], '*string': ['*int', 'string'], 'map[string]int': ['[]int', 'any'],
    'chan int': ['*int', 'any'], '[3]int16': ['[]int', '[2]string'], '[0]int': ['struct{}', '[]int'], 'struct{}': ['[0]int', 'bool'],
    'uint16': ['int16'], 'int16': ['uint16', 'int32'], 'uint64': ['int64', 'uintptr'], 'uintptr': ['uint64', '*int'], 'float32': ['float64', 'int32'],
    '[40]int64': ['[]int', '[33]string'], '[33]string': ['[2]string', 'string'], '[1100]byte': ['[]byte', 'string'],
    'complex64': ['float64', 'complex128'], 'complex128': ['complex64', '[2]string'], '[]int': ['[]byte', '[3]int16'], '[2]string': ['string', '[3]int16'],
}

FIELD_NAMES = ['A', 'B', 'C', 'D', 'X', 'Y', 'Z', 'Name', 'ID', 'Val', 'val', 'x', 'y', 'n', 'K9', 'Flag', 'Data', 'Ptr', 'Err', 'Cnt', 'a', 'Tag']
TAG_ALIASES = ['a', 'id', 'X', 'name', 'B', 'val', 'k']

# ----------------------------------------------------------------------------- shapes

class Field:
    def __init__(self, name, ty, tag='', embedded=False, ptr=False, struct=None):
        self.name, self.ty, self.tag, self.embedded, self.ptr, self.struct = name, ty, tag, embedded, ptr, struct
    def gotype(self):
        if self.struct is not None:
            return ('*' if self.ptr else '') + self.struct.name
        return self.ty.go
    def canon(self):
        if self.struct is not None:
            return ('*' if self.ptr else '') + 'main.' + self.struct.name
        return self.ty.canon
    def key(self):
        if self.tag:
            for part in self.tag.split(' '):
                if part.startswith('hseq:"'):
                    k = part[len('hseq:"'):-1].split(',')[0]
                    if k:
                        return k
        return self.name

class Struct:
    def __init__(self, name):
        self.name, self.fields = name, []
        self.tid = 's' + name

class Entry:
    """one element of the specified flattened listing"""
    def __init__(self, f, path, crossing):
        self.f, self.path, self.crossing = f, path, crossing
    def sel(self):
        return '.'.join(self.path + [self.f.name])
    def key(self): return self.f.key()
    def canon(self): return self.f.canon()
    def gotype(self): return self.f.gotype()

def listing(st, path=None, crossing=False):
    out = []
    path = path or []
    for f in st.fields:
        out.append(Entry(f, path, crossing))
        if f.embedded and f.struct is not None:
            out += listing(f.struct, path + [f.name], crossing or f.ptr)
    return out

class Gen:
    def __init__(self, seed, nshapes, tier):
        self.r = random.Random(seed)
        self.seed, self.tier = seed, tier
        self.structs = []       # all struct types, dependencies first
        self.roots = []
        self.nextid = 0
        self.out = []
        self.cases = 0
        self.case_fns = []
        self.used_tys = {}
        for i in range(nshapes):
            self.roots.append(self.gen_struct(0, root=True, hard=(i % 5)))
        # wide containers: the unfolding crosses 64 / 128 / 256 entries (bit masks, small fixed tables, byte counters)
        self.wides = [self.gen_wide_struct(64), self.gen_wide_struct(self.r.choice([128, 256]))]

    def newname(self, prefix):
        self.nextid += 1
        return '%s%d' % (prefix, self.nextid)

    def gen_struct(self, depth, root=False, hard=0):
        r = self.r
        st = Struct(self.newname('S' if root else 'E'))
        nf = r.randint(1, 12) if root else r.randint(1, 5)
        if root and hard == 0:
            nf = r.randint(6, 12)
        used = set()
        emb_used = set()
        def fname():
            for _ in range(50):
                n = r.choice(FIELD_NAMES)
                if n not in used:
                    used.add(n)
                    return n
            n = 'F%d' % len(used)
            used.add(n)
            return n
        for i in range(nf):
            x = r.random()
            tag = ''
            t = r.random()
            if t < 0.10:
                tag = 'hseq:"%s"' % r.choice(TAG_ALIASES)
            elif t < 0.16:
                tag = 'hseq:"%s,opt"' % r.choice(TAG_ALIASES)
            elif t < 0.20:
                tag = 'hseq:",opt"'
            elif t < 0.25:
                tag = 'json:"%s,omitempty"' % r.choice(TAG_ALIASES)
            elif t < 0.28:
                tag = 'json:"j" hseq:"%s"' % r.choice(TAG_ALIASES)
            if depth < 3 and x < (0.16 if depth < 2 else 0.10):
                sub = self.reuse_or_new(depth, used, r)
                used.add(sub.name)
                st.fields.append(Field(sub.name, None, tag, embedded=True, ptr=False, struct=sub))
            elif depth < 3 and x < 0.22:
                sub = self.reuse_or_new(depth, used, r)
                used.add(sub.name)
                st.fields.append(Field(sub.name, None, tag, embedded=True, ptr=True, struct=sub))
            elif x < 0.27:
                cand = [n for n in EMBEDDABLE_NAMED if n not in used]
                cand = [n for n in cand if n.split('.')[-1] not in used]
                if cand:
                    n = r.choice(cand)
                    used.add(n)
                    used.add(n.split('.')[-1])
                    st.fields.append(Field(n.split('.')[-1], BYGO[n], tag, embedded=True))
                    continue
                st.fields.append(Field(fname(), r.choice(BASE), tag))
            elif depth < 3 and x < 0.33:
                sub = self.gen_struct(depth + 1)
                if r.random() < 0.4:   # a large intermediate struct
                    sub.fields.insert(r.randrange(len(sub.fields) + 1), Field('Big%d' % len(sub.fields), BYGO[r.choice(['[40]int64', '[33]string', '[1100]byte'])]))
                st.fields.append(Field(fname(), None, tag, embedded=False, ptr=r.random() < 0.25, struct=sub))
            elif x > 0.96:
                # a blank field: it cannot be named or selected, but it is a field of the struct and takes its place
                st.fields.append(Field('_', r.choice([BYGO[t] for t in ('int8', 'int32', 'string', 'uint16', '[3]int16', 'bool')])))
            else:
                st.fields.append(Field(fname(), r.choice(BASE), tag))
        # a field of an embedded struct repeated (same name, same type) by the outer struct further down: selectors and
        # reflect.FieldByName mean the shallow one, the unfolding lists the embedded one first
        for f in list(st.fields):
            if f.embedded and f.struct is not None and r.random() < 0.3:
                inner = [g for g in f.struct.fields if g.struct is None and not g.embedded and g.name != '_' and g.name not in used]
                if inner:
                    g = r.choice(inner)
                    used.add(g.name)
                    st.fields.append(Field(g.name, g.ty, ''))
        if all(f.name == '_' for f in st.fields):
            st.fields.append(Field(fname(), r.choice(BASE)))
        self.structs.append(st)
        return st

    def gen_wide_struct(self, th):
        """W: k plain fields, then a value-embedded struct, a pointer-embedded struct and a few more fields, placed so
        that the unfolding crosses entry number th inside them; st.window = entry indices cases are generated for"""
        r = self.r
        small = [BYGO[t] for t in ('int8', 'int64', 'string', 'bool', 'uint16', 'float64', 'MyStr', '[]byte', 'int32', 'any')]
        ev = Struct(self.newname('E'))
        ev.fields = [Field('VA', BYGO['int64']), Field('VB', BYGO['string']), Field('VC', BYGO['bool']), Field('VD', BYGO['uint16'])]
        ep = Struct(self.newname('E'))
        ep.fields = [Field('PA', BYGO['int64']), Field('PB', BYGO['string']), Field('PC', BYGO['uintptr'])]
        self.structs += [ev, ep]
        st = Struct(self.newname('S'))
        tail = [Field(ev.name, None, '', embedded=True, ptr=False, struct=ev), Field(ep.name, None, '', embedded=True, ptr=True, struct=ep)]
        if th == 64:
            k = th - r.randint(2, 5)     # value-embedded entries straddle th, pointer-embedded ones lie past it
        else:
            k = th - r.randint(0, 2)     # pointer-embedded entries straddle th, value-embedded ones lie past it
            tail.reverse()
        for i in range(k):
            st.fields.append(Field('F%03d' % i, r.choice(small)))
        st.fields += tail
        for i in range(r.randint(2, 5)):
            st.fields.append(Field('T%d' % i, r.choice(small)))
        n = len(listing(st))
        st.window = sorted(set([0, 1, k // 2] + list(range(max(0, k - 3), n))))
        st.wide = True
        self.structs.append(st)
        return st

    def reuse_or_new(self, depth, used, r):
        """an embedded struct is sometimes a type that is already embedded elsewhere (the same type reached along
        several paths of one outer type, by value or by pointer); completed types cannot contain the current one"""
        cand = [s for s in self.structs if s.name.startswith('E') and s.name not in used and len(s.fields) <= 6]
        if cand and r.random() < 0.35:
            return r.choice(cand[-12:])
        return self.gen_struct(depth + 1)

    # ------------------------------------------------------------------ emission helpers
    def w(self, s=''):
        self.out.append(s)

    def decl(self, st):
        lines = ['type %s struct {' % st.name]
        for f in st.fields:
            t = f.gotype().replace('\n', '\n\t')
            tag = (' `%s`' % f.tag) if f.tag else ''
            if f.embedded:
                lines.append('\t%s%s' % (t, tag))
            else:
                lines.append('\t%s %s%s' % (f.name, t, tag))
        lines.append('}')
        return '\n'.join(lines)

    def pool_expr(self, f):
        """Go expression of type []T with the value pool of the field's type"""
        if f.struct is not None:
            if f.ptr:
                return 'ptrpool_%s()' % f.struct.name
            return 'valpool_%s()' % f.struct.name
        self.used_tys[f.ty.tid] = f.ty
        return 'pool_%s()' % f.ty.tid

    def emit_prelude(self):
        self.w('''// Code generated by /verif/lib/optgen.py (seed %d, tier %s); DO NOT EDIT.
package main

import (
	"errors"
	"fmt"
	"io"
	"math"
	"reflect"
	"slices"
	"sync"
	"unsafe"

	"verif/harness/common"
	rt "verif/harness/optrt"

	xa "optgen/sa/x"
	xb "optgen/sb/x"

	"github.com/fogfish/golem/hseq"
	"github.com/fogfish/golem/optics"
)

var (
	_ = errors.New
	_ = io.EOF
	_ = math.Copysign
	_ = fmt.Sprint
	_ = reflect.TypeOf
	_ = slices.Reverse[[]int]
	_ sync.Once
	_ unsafe.Pointer
	_ = hseq.New[struct{}]
	_ = optics.Morphism[int, int]
	_ = xa.Str("")
	_ = xb.Str("")
)

type (
	MyStr   string
	MyInt   int32
	MyBytes []byte
	MyF     float64
	MyI8    int8
	strImpl string
)

func (s strImpl) String() string { return string(s) }

var (
	pInt1, pInt2 = new(int), new(int)
	pStr1, pStr2 = new(string), new(string)
	m1           = map[string]int{"a": 1}
	m2           = map[string]int{}
	ch1          = make(chan int)
	ch2          = make(chan int, 1)
	errA         = errors.New("a")
)

func unbox[T any](v any) T {
	if v == nil {
		var z T
		return z
	}
	return v.(T)
}

func box[T any](xs []T) []any {
	out := make([]any, len(xs))
	for i, x := range xs {
		out[i] = x
	}
	return out
}

func typeOf[T any]() reflect.Type { return reflect.TypeOf((*T)(nil)).Elem() }

func off[S any, F any](s *S, f *F) uintptr { return uintptr(unsafe.Pointer(f)) - uintptr(unsafe.Pointer(s)) }
''' % (self.seed, self.tier))

    def emit_types(self):
        for st in self.structs:
            self.w(self.decl(st))
            self.w()
            # fill
            self.w('func fill_%s(s *%s, k int) {' % (st.name, st.name))
            for i, f in enumerate(st.fields):
                if f.name == '_':
                    continue
                if f.struct is not None and not f.ptr:
                    self.w('\tfill_%s(&s.%s, k+%d)' % (f.struct.name, f.name, i + 1))
                else:
                    self.w('\t{\n\t\tp := %s\n\t\ts.%s = p[(k*%d+%d)%%len(p)]\n\t}' % (self.pool_expr(f), f.name, 2 * i + 1, i))
            self.w('}')
            self.w()
            self.w('func valpool_%s() []%s {\n\tout := make([]%s, 4)\n\tfor i := range out {\n\t\tfill_%s(&out[i], i*5+1)\n\t}\n\treturn out\n}' % (st.name, st.name, st.name, st.name))
            self.w()
            self.w('var ptrs_%s = func() []*%s {\n\ta, b := new(%s), new(%s)\n\tfill_%s(a, 3)\n\tfill_%s(b, 8)\n\treturn []*%s{nil, a, b}\n}()' % (st.name, st.name, st.name, st.name, st.name, st.name, st.name))
            self.w('func ptrpool_%s() []*%s { return ptrs_%s }' % (st.name, st.name, st.name))
            self.w()

    def emit_primes(self):
        """prime_S: once per process, every focusable entry of S is derived by entry, by name and by type (in listing
        order, panics ignored), so that a case's own derivation is never the first use of the container type in its
        process - whatever the library remembers from earlier derivations is in place"""
        for st in self.roots + getattr(self, 'wides', []):
            L = listing(st)
            S = st.name
            self.w('var primeOnce_%s sync.Once\n' % S)
            self.w('func prime_%s() {\n\tprimeOnce_%s.Do(func() {' % (S, S))
            self.w('\t\tseq := hseq.New[%s]()\n\t\t_ = seq' % S)
            idxs = list(range(len(L)))
            if getattr(st, 'wide', False):
                idxs = st.window
            for i in idxs:
                e = L[i]
                T = e.gotype()
                self.w('\t\trt.Derive(func() { _ = optics.NewLens[%s, %s](seq[%d]); _ = optics.NewReflector[%s, %s](seq[%d]) })' % (S, T, i, S, T, i))
                if ok_name(e.key()):
                    self.w('\t\trt.Derive(func() { _ = optics.ForProduct1[%s, %s](%s) })' % (S, T, q(e.key())))
                self.w('\t\trt.Derive(func() { _ = optics.ForSpectrum1[%s, %s]() })' % (S, T))
            self.w('\t})\n}\n')

    def emit_pools(self):
        for t in BASE:
            self.w('func pool_%s() []%s {\n\treturn []%s{%s}\n}' % (t.tid, t.go, t.go, ', '.join(t.vals)))
            self.w()

    # ------------------------------------------------------------------ cases
    def case_begin(self, prop, site, st, req, expect):
        self.out = self.bufs.setdefault(prop, [])
        self.fns = self.fnsby.setdefault(prop, [])
        self.cases += 1
        cid = '%s-%d' % (prop, self.cases)
        fn = 'case_%d' % self.cases
        self.fns.append(fn)
        self.w('func %s() {' % fn)
        self.w('\tc := rt.Case{ID: %s, Site: %s, Struct: %s, Req: %s, Expect: %s, Decl: decl_%s}' % (q(cid), q(site), q(st.name), q(req), q(expect), st.name))
        self.w('\tif !rt.Want(%s, c.ID) || !rt.Begin(c) {\n\t\treturn\n\t}' % q(prop))
        if prop in ('C01', 'C02', 'C04') and getattr(st, 'primed', False):
            self.w('\tprime_%s()' % st.name)
        return cid

    def case_end(self, sig, nontrivial=True):
        self.w('\trt.End(c, %s, %s)' % (q(sig), 'true' if nontrivial else 'false'))
        self.w('}')
        self.w()

    def optic_lit(self, prop, st, e, getexpr, putexpr, kind='lens'):
        """rt.Optic literal for a plain field focus e of struct st"""
        T = e.gotype()
        S = st.name
        pool = self.pool_expr(e.f)
        return ('rt.Optic[%s]{Prop: %s, C: c, Kind: %s,\n'
                '\t\tGet:     func(s *%s) any { return %s },\n'
                '\t\tPut:     func(s *%s, v any) *%s { return %s },\n'
                '\t\tRead:    func(s *%s) any { return s.%s },\n'
                '\t\tWrite:   func(s *%s, v any) { s.%s = unbox[%s](v) },\n'
                '\t\tRegions: func(s *%s) []rt.Region { return []rt.Region{{Off: off(s, &s.%s), Size: unsafe.Sizeof(s.%s)}} },\n'
                '\t\tFill:    fill_%s, Vals: box(%s)}') % (
            S, q(prop), q(kind), S, getexpr, S, S, putexpr, S, e.sel(), S, e.sel(), T, S, e.sel(), e.sel(), S, pool)

    def resolve_name(self, L, key):
        for e in L:
            if e.key() == key:
                return e
        return None

    def resolve_type(self, L, canon):
        for e in L:
            if e.canon() == canon:
                return e
        return None

    def gen_cases(self):
        r = self.r
        for k, st in enumerate(self.roots):
            st.primed = k % 2 == 0    # every other shape is primed: both "first use" and "used before" are exercised
            L = listing(st)
            self.decls.append('const decl_%s = %s' % (st.name, q(self.decl_with_deps(st))))
            self.gen_c03(st, L)
            self.gen_c01(st, L)
            self.gen_by_entry(st, L)
            self.gen_gc(st, L)
            self.gen_c02(st, L)
            self.gen_c04(st, L)
        for st in self.wides:
            L = listing(st)
            self.decls.append('const decl_%s = %s' % (st.name, q(self.decl_with_deps(st))))
            self.gen_c03(st, L)
            self.gen_wide(st, L)

    def gen_static(self):
        """hand-written corpus: two container types that print alike (x.Box from two packages named x)"""
        def optic(S, T, field, get, put):
            return ('rt.Optic[%s]{Prop: "C01", C: c, Kind: "lens",\n\t\tGet: func(s *%s) any { return %s },\n\t\tPut: func(s *%s, v any) *%s { return %s },\n'
                    '\t\tRead: func(s *%s) any { return s.%s },\n\t\tWrite: func(s *%s, v any) { s.%s = unbox[%s](v) },\n'
                    '\t\tRegions: func(s *%s) []rt.Region { return []rt.Region{{Off: off(s, &s.%s), Size: unsafe.Sizeof(s.%s)}} },\n'
                    '\t\tFill: func(s *%s, k int) { s.Note = fmt.Sprint("note", k); s.N = 100 + k }, Vals: %s}') % (
                S, S, get, S, S, put, S, field, S, field, T, S, field, field, S, 'box(pool_%s())' % BYGO[T].tid)
        self.out = self.bufs.setdefault('C01', [])
        self.fns = self.fnsby.setdefault('C01', [])
        self.fns.append('case_static_lookalike')
        self.w('const decl_static = "package sa/x: type Box struct { Note string; N int }\\npackage sb/x: type Box struct { Pad [3]int64; Note string; Flag bool; N int }"')
        self.w('func case_static_lookalike() {')
        self.w('\tc := rt.Case{ID: "C01-static-lookalike", Site: "lookalike-containers", Struct: "xa.Box, xb.Box", Req: "ForSpectrum1/ForProduct1 for two container types that both print as x.Box, derived one after the other", Expect: "each optic focuses its own container", Decl: decl_static}')
        self.w('\tif !rt.Want("C01", c.ID) || !rt.Begin(c) {\n\t\treturn\n\t}')
        self.w('\tvar ra, rb optics.Reflector[string]\n\tvar na, nb optics.Reflector[int]\n\tvar la optics.Lens[xa.Box, string]\n\tvar lb optics.Lens[xb.Box, string]')
        self.w('\tif pn, msg := rt.Derive(func() {\n\t\tra = optics.ForSpectrum1[xa.Box, string]("Note")\n\t\trb = optics.ForSpectrum1[xb.Box, string]("Note")\n\t\tnb = optics.ForSpectrum1[xb.Box, int]("N")\n\t\tna = optics.ForSpectrum1[xa.Box, int]("N")\n\t\tla = optics.ForProduct1[xa.Box, string]("Note")\n\t\tlb = optics.ForProduct1[xb.Box, string]("Note")\n\t}); pn {\n\t\trt.Refused("C01", c, msg)\n\t\trt.End(c, "static", true)\n\t\treturn\n\t}')
        self.w('\trt.CheckOptic(%s)' % optic('xa.Box', 'string', 'Note', 'ra.Gett(s)', 'unbox[*xa.Box](ra.Putt(s, unbox[string](v)))'))
        self.w('\trt.CheckOptic(%s)' % optic('xb.Box', 'string', 'Note', 'rb.Gett(s)', 'unbox[*xb.Box](rb.Putt(s, unbox[string](v)))'))
        self.w('\trt.CheckOptic(%s)' % optic('xa.Box', 'int', 'N', 'na.Gett(s)', 'unbox[*xa.Box](na.Putt(s, unbox[int](v)))'))
        self.w('\trt.CheckOptic(%s)' % optic('xb.Box', 'int', 'N', 'nb.Gett(s)', 'unbox[*xb.Box](nb.Putt(s, unbox[int](v)))'))
        self.w('\trt.CheckOptic(%s)' % optic('xa.Box', 'string', 'Note', 'la.Get(s)', 'la.Put(s, unbox[string](v))'))
        self.w('\trt.CheckOptic(%s)' % optic('xb.Box', 'string', 'Note', 'lb.Get(s)', 'lb.Put(s, unbox[string](v))'))
        self.w('\trt.End(c, "C01/static/lookalike", true)\n}\n')
        # C02: the reflector of one Box handed a pointer to the other Box
        self.out = self.bufs.setdefault('C02', [])
        self.fns = self.fnsby.setdefault('C02', [])
        self.fns.append('case_static_foreign')
        self.w('func case_static_foreign() {')
        self.w('\tc := rt.Case{ID: "C02-static-foreign", Site: "lookalike-containers/wrong-argument", Struct: "xa.Box, xb.Box", Req: "Reflector of xb.Box handed *xa.Box (and the reverse)", Expect: "panic, nothing modified"}')
        self.w('\tif !rt.Want("C02", c.ID) || !rt.Begin(c) {\n\t\treturn\n\t}')
        self.w('\tra := optics.ForSpectrum1[xa.Box, string]("Note")\n\trb := optics.ForSpectrum1[xb.Box, string]("Note")')
        self.w('\ta := &xa.Box{Note: "a", N: 1}\n\tb := &xb.Box{Note: "b", N: 2}')
        self.w('\trt.WrongArg("C02", c, "xb.Box reflector: Gett(*xa.Box)", unsafe.Pointer(a), unsafe.Sizeof(*a), func() { rb.Gett(a) })')
        self.w('\trt.WrongArg("C02", c, "xb.Box reflector: Putt(*xa.Box)", unsafe.Pointer(a), unsafe.Sizeof(*a), func() { rb.Putt(a, "hijacked") })')
        self.w('\trt.WrongArg("C02", c, "xa.Box reflector: Gett(*xb.Box)", unsafe.Pointer(b), unsafe.Sizeof(*b), func() { ra.Gett(b) })')
        self.w('\trt.WrongArg("C02", c, "xa.Box reflector: Putt(*xb.Box)", unsafe.Pointer(b), unsafe.Sizeof(*b), func() { ra.Putt(b, "hijacked") })')
        self.w('\trt.End(c, "C02/static/foreign", true)\n}\n')

    def gen_static_hidden(self):
        """hand-written shapes: embedded pointers that Go's selector rules hide (the same embedded type twice at one depth,
        or a shallower field of its name); and a value-embedded struct inside a pointer-embedded one. The sequence of the
        container lists the fields behind them all the same, and every derivation that reaches them must be refused -
        for plain and for composed optics."""
        self.decls.append('type HMeta struct {\n\tRev int64\n\tWho string\n}\n'
                          'type HAudit struct {\n\t*HMeta\n\tAt int64\n}\ntype HOwner struct {\n\t*HMeta\n\tName [2]string\n}\n'
                          'type HDoc struct {\n\tID int32\n\tHAudit\n\tHOwner\n\tTail uint8\n}\n'
                          'type HBase struct {\n\t*HMeta\n\tK int8\n}\ntype HRec struct {\n\tHBase\n\tHMeta float32\n\tZ int16\n}\n'
                          'type PLeaf struct {\n\tX int32\n\tY string\n}\ntype PMid struct {\n\tQ int8\n\tPLeaf\n}\n'
                          'type PTop struct {\n\tA int32\n\t*PMid\n\tB []byte\n}\ntype PWrap struct {\n\tN int\n\tT PTop\n}\n'
                          'const decl_hidden = "HMeta{Rev int64; Who string} HAudit{*HMeta; At int64} HOwner{*HMeta; Name [2]string} HDoc{ID int32; HAudit; HOwner; Tail uint8} HBase{*HMeta; K int8} HRec{HBase; HMeta float32; Z int16} PLeaf{X int32; Y string} PMid{Q int8; PLeaf} PTop{A int32; *PMid; B []byte} PWrap{N int; T PTop}"')
        c02 = [
            ('optics.ForProduct1[HDoc, int64]("Rev")', 'Rev lies behind an embedded pointer that is ambiguous as a selector (two *HMeta at one depth)'),
            ('optics.ForSpectrum1[HDoc, int64]("Rev")', 'reflector: Rev behind an ambiguous embedded pointer'),
            ('optics.ForProduct1[HDoc, string]("Who")', 'Who behind an ambiguous embedded pointer'),
            ('optics.ForProduct1[HDoc, string]()', 'the first string of HDoc is Who, behind an embedded pointer'),
            ('optics.ForSpectrum1[HDoc, string]()', 'reflector by type: the first string of HDoc is Who'),
            ('optics.NewLens[HDoc, int64](hseq.ForName(hseq.New[HDoc](), "Rev"))', 'lens by entry: Rev'),
            ('optics.ForProduct1[HRec, int64]("Rev")', 'Rev lies behind an embedded pointer shadowed by the field HMeta float32'),
            ('optics.ForSpectrum1[HRec, string]("Who")', 'reflector: Who behind a shadowed embedded pointer'),
            ('optics.ForProduct1[HRec, int64]()', 'the first int64 of HRec is Rev, behind an embedded pointer'),
            ('optics.NewReflector[HRec, string](hseq.ForName(hseq.New[HRec](), "Who"))', 'reflector by entry: Who'),
            ('optics.ForProduct1[PTop, int32]("X")', 'X lies in a struct embedded by value in a struct embedded by pointer'),
            ('optics.ForSpectrum1[PTop, string]("Y")', 'reflector: Y behind pointer-then-value embedding'),
            ('optics.ForProduct1[PTop, string]()', 'the first string of PTop is Y'),
        ]
        ok02 = ['optics.ForProduct1[HDoc, int32]("ID")', 'optics.ForProduct1[HDoc, uint8]("Tail")', 'optics.ForProduct1[HRec, float32]()', 'optics.ForSpectrum1[HRec, int16]("Z")',
                'optics.ForProduct1[PTop, int32]("A")', 'optics.ForProduct1[PTop, []byte]("B")', 'optics.ForProduct1[HDoc, int64]("At")']
        c04 = [
            ('optics.BiMapI[PTop, int32, MyInt]("X")', 'BiMapI over X, which lies behind pointer-then-value embedding'),
            ('optics.BiMapS[PTop, string, MyStr]("Y")', 'BiMapS over Y'),
            ('optics.ForShape2[PTop, int32, int32]("A", "X")', 'a shape lens one of whose fields lies behind an embedded pointer'),
            ('optics.ForShape2[PTop, int32, string]("A", "Y")', 'a shape lens one of whose fields lies behind an embedded pointer'),
            ('optics.Join(optics.ForProduct1[PWrap, PTop]("T"), optics.ForProduct1[PTop, int32]("X"))', 'Join whose inner lens reaches behind an embedded pointer'),
            ('optics.Getter(optics.ForProduct1[PTop, int32]("X"), func(a int32) int64 { return int64(a) })', 'Getter over a lens behind an embedded pointer'),
            ('optics.Setter(optics.ForProduct1[PTop, string]("Y"), func(b []byte) string { return string(b) })', 'Setter over a lens behind an embedded pointer'),
            ('optics.BiMapI[HDoc, int64, int]("Rev")', 'BiMapI over Rev behind an ambiguous embedded pointer'),
            ('optics.BiMapS[HRec, string, MyStr]("Who")', 'BiMapS over Who behind a shadowed embedded pointer'),
            ('optics.ForShape3[HDoc, int32, int64, uint8]("ID", "Rev", "Tail")', 'a shape lens through an ambiguous embedded pointer'),
        ]
        ok04 = ['optics.BiMapI[PTop, int32, MyInt]("A")', 'optics.ForShape2[PTop, int32, []byte]("A", "B")', 'optics.Join(optics.ForProduct1[PWrap, PTop]("T"), optics.ForProduct1[PTop, int32]("A"))',
                'optics.BiMapI[HDoc, int64, int]("At")']
        for prop, neg, pos in (('C02', c02, ok02), ('C04', c04, ok04)):
            self.out = self.bufs.setdefault(prop, [])
            self.fns = self.fnsby.setdefault(prop, [])
            fn = 'case_static_hidden_%s' % prop
            self.fns.append(fn)
            self.w('func %s() {' % fn)
            self.w('\tc := rt.Case{ID: "%s-static-hidden", Site: "hidden-embedded-pointers", Struct: "HDoc, HRec, PTop", Req: "derivations reaching fields behind embedded pointers that selectors do not show", Expect: "panic", Decl: decl_hidden}' % prop)
            self.w('\tif !rt.Want(%s, c.ID) || !rt.Begin(c) {\n\t\treturn\n\t}' % q(prop))
            for expr, why in neg:
                self.w('\tif pn, _ := rt.Derive(func() { _ = %s }); !pn {\n\t\trt.Accepted(%s, c, %s)\n\t}' % (expr, q(prop), q(expr + ': ' + why)))
            for expr in pos:
                self.w('\tif pn, msg := rt.Derive(func() { _ = %s }); pn {\n\t\trt.Refused(%s, c, %s + msg)\n\t}' % (expr, q(prop), q(expr + ': ')))
            self.w('\trt.End(c, "%s/static/hidden", true)\n}\n' % prop)

    def gen_static_shapes(self):
        """hand-written shapes, second batch: a focus 64 KiB and more into its container; a value-embedded struct that
        follows a pointer-typed field inside another value-embedded struct; fields embedded through an alias, a generic
        instantiation and a predeclared type (their names are the field names, not the type names)"""
        self.decls.append('type QInner struct {\n\tQa int16\n\tQb string\n}\n'
                          'type QHuge struct {\n\tHead int32\n\tBuf [1 << 16]byte\n\tSize int64\n\tQInner\n\tMid [3000]uint64\n\tTail string\n}\n'
                          'type RW struct {\n\tX int32\n\tY string\n}\ntype RV struct {\n\tP *int\n\tRW\n\tQ *RW\n\tK uint8\n}\n'
                          'type RTop struct {\n\tA [3]uint64\n\tRV\n\tZ int8\n}\n'
                          'type QPix struct {\n\tN int64\n\tRGB [3]byte\n\tT uint8\n\tPad int32\n\tW [3]int16\n\tU uint16\n\tX [5]byte\n\tV [3]uint8\n\tY [7]uint8\n\tS uint8\n\tTri struct{ A, B, C uint8 }\n\tE uint8\n}\n'
                          'type eCore struct{ U uint16 }\ntype EAlias = eCore\ntype EBox[T any] struct{ V T }\n'
                          'type EOuter struct {\n\tHead int8\n\tEAlias\n\tEBox[int]\n\tbyte\n\tTail string\n}\n'
                          'const decl_shapes2 = "QHuge{Head int32; Buf [65536]byte; Size int64; QInner{Qa int16; Qb string}; Mid [3000]uint64; Tail string} RTop{A [3]uint64; RV{P *int; RW{X int32; Y string}; Q *RW; K uint8}; Z int8} EOuter{Head int8; EAlias(=eCore{U uint16}); EBox[int]{V int}; byte; Tail string}"')
        def optic(prop, S, T, sel, get, put, fill, vals):
            return ('rt.Optic[%s]{Prop: %s, C: c, Kind: "lens",\n\t\tGet: func(s *%s) any { return %s },\n\t\tPut: func(s *%s, v any) *%s { return %s },\n'
                    '\t\tRead: func(s *%s) any { return s.%s },\n\t\tWrite: func(s *%s, v any) { s.%s = unbox[%s](v) },\n'
                    '\t\tRegions: func(s *%s) []rt.Region { return []rt.Region{{Off: off(s, &s.%s), Size: unsafe.Sizeof(s.%s)}} },\n'
                    '\t\tFill: %s, Vals: %s}') % (S, q(prop), S, get, S, S, put, S, sel, S, sel, T, S, sel, sel, fill, vals)
        fillQ = 'func(s *QHuge, k int) { s.Head = int32(k); for i := range s.Buf { s.Buf[i] = byte(i*7 + k) }; s.Size = int64(k) * 1000003; s.Qa = int16(k + 5); s.Qb = fmt.Sprint("qb", k); for i := range s.Mid { s.Mid[i] = uint64(i ^ k) }; s.Tail = fmt.Sprint("tail", k) }'
        fillR = 'func(s *RTop, k int) { s.A = [3]uint64{uint64(k), uint64(k) + 1, uint64(k) + 2}; s.P = new(int); s.X = int32(100 + k); s.Y = fmt.Sprint("y", k); s.Q = &RW{X: 7}; s.K = uint8(k); s.Z = int8(k) }'
        fillP = 'func(s *QPix, k int) { b := byte(k*37 + 11); s.N = int64(k) - 3; s.RGB = [3]byte{b, b + 1, b + 2}; s.T = b + 3; s.Pad = int32(k) * 65537; s.W = [3]int16{int16(k) - 9, int16(k) * 257, 77}; s.U = uint16(k) + 40000; s.X = [5]byte{b, b, b + 9, b, b}; s.V = [3]uint8{b + 5, b + 6, b + 7}; s.Y = [7]uint8{1, b, 3, b, 5, b, 7}; s.S = b + 8; s.Tri.A, s.Tri.B, s.Tri.C = b, b + 1, b + 2; s.E = b + 4 }'
        foci = [('QPix', '[3]byte', 'RGB', fillP, 'box([][3]byte{{}, {1, 2, 3}, {255, 254, 253}})'), ('QPix', '[3]int16', 'W', fillP, 'box([][3]int16{{}, {-1, -2, -3}, {32767, 1, -32768}})'),
                ('QPix', '[5]byte', 'X', fillP, 'box([][5]byte{{}, {9, 8, 7, 6, 5}})'), ('QPix', '[7]uint8', 'Y', fillP, 'box([][7]uint8{{}, {7, 6, 5, 4, 3, 2, 1}})'),
                ('QPix', 'struct{ A, B, C uint8 }', 'Tri', fillP, 'box([]struct{ A, B, C uint8 }{{}, {1, 2, 3}, {250, 251, 252}})'), ('QPix', 'uint16', 'U', fillP, 'box([]uint16{0, 65535})'),
                ('QHuge', 'int64', 'Size', fillQ, 'box([]int64{0, -1, 1 << 40})'), ('QHuge', 'int16', 'Qa', fillQ, 'box([]int16{0, -3, 999})'), ('QHuge', 'string', 'Qb', fillQ, 'box([]string{"", "zz"})'),
                ('QHuge', 'string', 'Tail', fillQ, 'box([]string{"", "t"})'), ('QHuge', 'int32', 'Head', fillQ, 'box([]int32{0, 77})'),
                ('RTop', 'int32', 'X', fillR, 'box([]int32{0, -9, 1 << 20})'), ('RTop', 'string', 'Y', fillR, 'box([]string{"", "w"})'), ('RTop', 'uint8', 'K', fillR, 'box([]uint8{0, 200})'), ('RTop', 'int8', 'Z', fillR, 'box([]int8{0, -7})')]
        for prop in ('C01', 'C02'):
            self.out = self.bufs.setdefault(prop, [])
            self.fns = self.fnsby.setdefault(prop, [])
            fn = 'case_static_shapes2_%s' % prop
            self.fns.append(fn)
            self.w('func %s() {' % fn)
            self.w('\tc := rt.Case{ID: "%s-static-shapes2", Site: "far-and-nested-foci", Struct: "QHuge, RTop, QPix", Req: "lenses and reflectors by name (and by type where the type is the first of its kind) on foci 64 KiB into the container and on a struct embedded after a pointer field", Expect: "focus exactly the field", Decl: decl_shapes2}' % prop)
            self.w('\tif !rt.Want(%s, c.ID) || !rt.Begin(c) {\n\t\treturn\n\t}' % q(prop))
            for i, (S, T, sel, fill, vals) in enumerate(foci):
                self.w('\t{')
                self.w('\t\tvar l optics.Lens[%s, %s]\n\t\tvar rf optics.Reflector[%s]' % (S, T, T))
                self.w('\t\tif pn, msg := rt.Derive(func() {\n\t\t\tl = optics.ForProduct1[%s, %s](%s)\n\t\t\trf = optics.ForSpectrum1[%s, %s](%s)\n\t\t}); pn {\n\t\t\trt.Refused(%s, c, %s+msg)\n\t\t} else {' % (S, T, q(sel), S, T, q(sel), q(prop), q('%s.%s: ' % (S, sel))))
                self.w('\t\t\trt.CheckOptic(%s)' % optic(prop, S, T, sel, 'l.Get(s)', 'l.Put(s, unbox[%s](v))' % T, fill, vals))
                self.w('\t\t\trt.CheckOptic(%s)' % optic(prop, S, T, sel, 'rf.Gett(s)', 'unbox[*%s](rf.Putt(s, unbox[%s](v)))' % (S, T), fill, vals))
                self.w('\t\t}\n\t}')
            self.w('\trt.End(c, "%s/static/shapes2", true)\n}\n' % prop)
        # C03: names of embedded fields
        self.out = self.bufs.setdefault('C03', [])
        self.fns = self.fnsby.setdefault('C03', [])
        self.fns.append('case_static_embedded_names')
        self.w('func case_static_embedded_names() {')
        self.w('\tc := rt.Case{ID: "C03-static-embedded-names", Site: "embedded-names", Struct: "EOuter", Req: "listing and lookups by name of fields embedded through an alias, a generic instantiation and a predeclared type", Expect: "an embedded field is known by its field name (reflect.StructField.Name)", Decl: decl_shapes2}')
        self.w('\tif !rt.Want("C03", c.ID) || !rt.Begin(c) {\n\t\treturn\n\t}')
        self.w('\tseq := hseq.New[EOuter]()')
        self.w('\tnames := hseq.FMap(seq, func(t hseq.Type[EOuter]) string { return t.FieldKey() })')
        self.w('\twant := []string{"Head", "EAlias", "U", "EBox", "V", "byte", "Tail"}')
        self.w('\tif fmt.Sprint(names) != fmt.Sprint(want) {\n\t\trt.Vio("C03", c, "listing-names", fmt.Sprintf("keys of the listing are %v, the fields are %v", names, want))\n\t}')
        for i, k in enumerate(['Head', 'EAlias', 'U', 'EBox', 'V', 'byte', 'Tail']):
            self.w('\trt.CheckLookup("C03", c, %s, %d, func() int { return hseq.ForName(seq, %s).ID })' % (q('ForName(%s)' % k), i, q(k)))
            self.w('\trt.CheckMaybe("C03", c, %s, %d, func() (int, bool) { t, ok := hseq.ForNameMaybe(seq, %s); return t.ID, ok })' % (q('ForNameMaybe(%s)' % k), i, q(k)))
        for k in ['eCore', 'EBox[int]', 'uint8', 'main.eCore']:
            self.w('\trt.CheckLookup("C03", c, %s, -1, func() int { return hseq.ForName(seq, %s).ID })' % (q('ForName(%s)' % k), q(k)))
            self.w('\trt.CheckMaybe("C03", c, %s, -1, func() (int, bool) { t, ok := hseq.ForNameMaybe(seq, %s); return t.ID, ok })' % (q('ForNameMaybe(%s)' % k), q(k)))
        # the same struct type embedded by pointer along two paths: both are unfolded
        self.w('\tdk := hseq.FMap(hseq.New[HDoc](), func(t hseq.Type[HDoc]) string { return t.FieldKey() })')
        self.w('\tif w := []string{"ID", "HAudit", "HMeta", "Rev", "Who", "At", "HOwner", "HMeta", "Rev", "Who", "Name", "Tail"}; fmt.Sprint(dk) != fmt.Sprint(w) {\n\t\trt.Vio("C03", c, "listing-names", fmt.Sprintf("HDoc (the struct HMeta embedded by pointer along two paths) unfolds to %v, its fields are %v", dk, w))\n\t}')
        self.w('\trk := hseq.FMap(hseq.New[HRec](), func(t hseq.Type[HRec]) string { return t.FieldKey() })')
        self.w('\tif w := []string{"HBase", "HMeta", "Rev", "Who", "K", "HMeta", "Z"}; fmt.Sprint(rk) != fmt.Sprint(w) {\n\t\trt.Vio("C03", c, "listing-names", fmt.Sprintf("HRec unfolds to %v, its fields are %v", rk, w))\n\t}')
        self.w('\trt.CheckLookup("C03", c, "ForType[string] of HDoc", 4, func() int { return hseq.ForType[string](hseq.New[HDoc]()).ID })')
        self.w('\trt.CheckIDsF("C03", c, "New(Tail, EBox, EAlias)", func() []int { return hseq.FMap(hseq.New[EOuter]("Tail", "EBox", "EAlias"), func(t hseq.Type[EOuter]) int { return t.ID }) }, []int{6, 3, 1})')
        self.w('\trt.End(c, "C03/static/embedded-names", true)\n}\n')

    def twist(self, st):
        """the same type names with another layout (fields reversed, one more in front), as local declarations
        in dependency order; returns (twisted root, [decl text])"""
        memo, decls = {}, []
        def rec(s):
            if s.name in memo:
                return memo[s.name]
            t = Struct(s.name)
            memo[s.name] = t
            fs = []
            for f in reversed(s.fields):
                sub = rec(f.struct) if f.struct is not None else None
                fs.append(Field(f.name, f.ty, f.tag, embedded=f.embedded, ptr=f.ptr, struct=sub))
            t.fields = [Field('Twin0', BYGO['bool'])] + fs
            decls.append(self.decl(t))
            return t
        return rec(st), decls

    def decl_with_deps(self, st):
        seen, out = set(), []
        def rec(s):
            if s.name in seen:
                return
            seen.add(s.name)
            for f in s.fields:
                if f.struct is not None:
                    rec(f.struct)
            out.append(self.decl(s))
        rec(st)
        return '\n'.join(out)

    # -------- C03: listing and lookups
    def gen_c03(self, st, L):
        S = st.name
        self.case_begin('C03', 'listing', st, 'hseq.New[%s]()' % S, 'listing of %d entries' % len(L))
        self.w('\tseq := hseq.New[%s]()' % S)
        self.w('\twant := []rt.Want3[%s]{' % S)
        for i, e in enumerate(L):
            T = e.gotype()
            pure = T[1:] if T.startswith('*') else T
            offexpr = 'rt.NoOffset'
            if not e.crossing and '_' not in e.path + [e.f.name]:
                offexpr = 'off(s, &s.%s)' % e.sel()
            self.w('\t\t{Key: %s, Name: %s, Type: typeOf[%s](), Pure: typeOf[%s](), Off: func(s *%s) uintptr { return %s }},' % (
                q(e.key()), q(e.f.name), T, pure, S, offexpr))
        self.w('\t}')
        self.w('\tgot := make([]rt.Got3, len(seq))')
        self.w('\tfor i, t := range seq {\n\t\tgot[i] = rt.Got3{Key: t.FieldKey(), Name: t.Name, Type: t.Type, Pure: t.PureType, ID: t.ID, Off: t.RootOffs + t.Offset}\n\t}')
        self.w('\trt.CheckListing("C03", c, new(%s), got, want)' % S)
        self.w('\tfmapped := hseq.FMap(seq, func(t hseq.Type[%s]) int { return t.ID })' % S)
        self.w('\trt.CheckIDs("C03", c, "hseq.FMap", fmapped, rt.Iota(len(seq)))')
        # the returned listing belongs to the caller: it may reorder, cut or overwrite it; a later unfolding is unaffected
        self.w('\tslices.Reverse(seq)\n\tfor i := range seq {\n\t\tif i%2 == 0 {\n\t\t\tseq[i] = hseq.Type[' + S + ']{}\n\t\t}\n\t}\n\tseq = append(seq[:0], seq[len(seq)/2:]...)')
        self.w('\tagain := hseq.New[%s]()' % S)
        self.w('\tgot2 := make([]rt.Got3, len(again))')
        self.w('\tfor i, t := range again {\n\t\tgot2[i] = rt.Got3{Key: t.FieldKey(), Name: t.Name, Type: t.Type, Pure: t.PureType, ID: t.ID, Off: t.RootOffs + t.Offset}\n\t}')
        self.w('\tc.Req += " again, after the caller reordered and overwrote the listing it was given"')
        self.w('\trt.CheckListing("C03", c, new(%s), got2, want)' % S)
        # no names at all, however the caller's (empty) slice of names came about: the whole listing
        self.w('\tfor _, none := range [][]string{nil, {}, make([]string, 0, 4), []string{"x"}[:0]} {')
        self.w('\t\trt.CheckIDsF("C03", c, "New(names...) with an empty list of names", func() []int { return hseq.FMap(hseq.New[%s](none...), func(t hseq.Type[%s]) int { return t.ID }) }, rt.Iota(%d))' % (S, S, len(L)))
        self.w('\t}')
        self.case_end('C03/listing/%s' % S, len(L) > 1)

        # the same type names declared again in a local scope with another layout: both print as main.<name>, so
        # anything remembered per printed name (or per name of an embedded type) hands this one the other's listing
        tw, decls = self.twist(st)
        L2 = listing(tw)
        self.case_begin('C03', 'listing/local-twin', st, 'hseq.New[%s]() for a function-local type of the same name (other layout), after the package-level one' % S,
                        'listing of the local declaration: %d entries' % len(L2))
        self.w('\tfirst := len(hseq.New[%s]()) // the package-level type of this name is unfolded first, in this process' % S)
        for d in decls:
            self.w('\t' + d.replace('\n', '\n\t'))
        self.w('\t_ = first')
        self.w('\tseq := hseq.New[%s]()' % S)
        self.w('\twant := []rt.Want3[%s]{' % S)
        for i, e in enumerate(L2):
            T = e.gotype()
            pure = T[1:] if T.startswith('*') else T
            offexpr = 'rt.NoOffset'
            if not e.crossing and '_' not in e.path + [e.f.name]:
                offexpr = 'off(s, &s.%s)' % e.sel()
            self.w('\t\t{Key: %s, Name: %s, Type: typeOf[%s](), Pure: typeOf[%s](), Off: func(s *%s) uintptr { return %s }},' % (
                q(e.key()), q(e.f.name), T, pure, S, offexpr))
        self.w('\t}')
        self.w('\tgot := make([]rt.Got3, len(seq))')
        self.w('\tfor i, t := range seq {\n\t\tgot[i] = rt.Got3{Key: t.FieldKey(), Name: t.Name, Type: t.Type, Pure: t.PureType, ID: t.ID, Off: t.RootOffs + t.Offset}\n\t}')
        self.w('\trt.CheckListing("C03", c, new(%s), got, want)' % S)
        k2 = []
        for e in L2:
            if e.key() not in k2:
                k2.append(e.key())
        for k in k2[:6]:
            idx = L2.index(self.resolve_name(L2, k))
            self.w('\trt.CheckLookup("C03", c, %s, %d, func() int { return hseq.ForName(seq, %s).ID })' % (q('ForName(%s)' % k), idx, q(k)))
        self.case_end('C03/listing-local-twin/%s' % S, len(L2) > 1)

        # lookups by name: every key present + absent ones
        keys = []
        for e in L:
            if e.key() not in keys:
                keys.append(e.key())
        absent = [k for k in ['nope', 'a ', 'Name2', 'ID,opt', ''] if k not in keys][:3]
        self.case_begin('C03', 'by-name', st, 'ForName / ForNameMaybe / New(names...)', 'first match or loud failure')
        self.w('\tseq := hseq.New[%s]()' % S)
        for k in keys:
            idx = L.index(self.resolve_name(L, k))
            self.w('\trt.CheckLookup("C03", c, %s, %d, func() int { return hseq.ForName(seq, %s).ID })' % (q('ForName(%s)' % k), idx, q(k)))
            self.w('\trt.CheckMaybe("C03", c, %s, %d, func() (int, bool) { t, ok := hseq.ForNameMaybe(seq, %s); return t.ID, ok })' % (q('ForNameMaybe(%s)' % k), idx, q(k)))
        for k in absent:
            self.w('\trt.CheckLookup("C03", c, %s, -1, func() int { return hseq.ForName(seq, %s).ID })' % (q('ForName(%s)' % k), q(k)))
            self.w('\trt.CheckMaybe("C03", c, %s, -1, func() (int, bool) { t, ok := hseq.ForNameMaybe(seq, %s); return t.ID, ok })' % (q('ForNameMaybe(%s)' % k), q(k)))
        # selection by names keeps the requested order
        for _ in range(3):
            n = self.r.randint(1, min(6, len(keys)))
            pick = [self.r.choice(keys) for _ in range(n)]
            ids = [L.index(self.resolve_name(L, k)) for k in pick]
            self.w('\trt.CheckIDsF("C03", c, %s, func() []int { return hseq.FMap(hseq.New[%s](%s), func(t hseq.Type[%s]) int { return t.ID }) }, []int{%s})' % (
                q('New(%s)' % ','.join(pick)), S, ', '.join(q(k) for k in pick), S, ', '.join(map(str, ids))))
        if absent:
            self.w('\trt.CheckIDsF("C03", c, %s, func() []int { return hseq.FMap(hseq.New[%s](%s, %s), func(t hseq.Type[%s]) int { return t.ID }) }, nil)' % (
                q('New(%s,%s)' % (keys[0], absent[0])), S, q(keys[0]), q(absent[0]), S))
        self.case_end('C03/by-name/%s' % S, len(keys) > 1)

        # lookups by type + K-tuples
        canons, tys = [], []
        for e in L:
            if e.canon() not in canons:
                canons.append(e.canon())
                tys.append(e.gotype())
        absent_t = [t.go for t in BASE if t.canon not in canons][:3]
        self.case_begin('C03', 'by-type', st, 'ForType / New1..9 / FMap1..9', 'first match or loud failure')
        self.w('\tseq := hseq.New[%s]()' % S)
        for T, cn in zip(tys, canons):
            idx = L.index(self.resolve_type(L, cn))
            self.w('\trt.CheckLookup("C03", c, %s, %d, func() int { return hseq.ForType[%s](seq).ID })' % (q('ForType[%s]' % T.replace('\n', ' ')), idx, T))
        for T in absent_t:
            self.w('\trt.CheckLookup("C03", c, %s, -1, func() int { return hseq.ForType[%s](seq).ID })' % (q('ForType[%s]' % T.replace('\n', ' ')), T))
        for K in sorted(set([1, 2, 3, self.r.randint(4, 9), self.r.randint(4, 9)])):
            pick = [self.r.randrange(len(tys)) for _ in range(K)]
            ids = [L.index(self.resolve_type(L, canons[i])) for i in pick]
            targs = ', '.join([S] + [tys[i] for i in pick])
            self.w('\trt.CheckIDsF("C03", c, %s, func() []int { return hseq.FMap(hseq.New%d[%s](), func(t hseq.Type[%s]) int { return t.ID }) }, []int{%s})' % (
                q('New%d' % K), K, targs, S, ', '.join(map(str, ids))))
            # FMapK hands entry i to function i
            fns = ', '.join('func(t hseq.Type[%s]) int { return %d*1000 + t.ID }' % (S, j + 1) for j in range(K))
            rets = ', '.join('r%d' % j for j in range(K))
            self.w('\trt.CheckIDsF("C03", c, %s, func() []int {\n\t\t%s := hseq.FMap%d(hseq.New%d[%s](), %s)\n\t\treturn []int{%s}\n\t}, []int{%s})' % (
                q('FMap%d' % K), rets, K, K, targs, fns, rets, ', '.join(str((j + 1) * 1000 + ids[j]) for j in range(K))))
        if absent_t:
            self.w('\trt.CheckIDsF("C03", c, "New2 with an absent type", func() []int { return hseq.FMap(hseq.New2[%s, %s, %s](), func(t hseq.Type[%s]) int { return t.ID }) }, nil)' % (S, tys[0], absent_t[0], S))
        self.case_end('C03/by-type/%s' % S, len(tys) > 1)

    # -------- C01: positive lenses / reflectors through ForProductK / ForSpectrumK
    def positive_requests(self, st, L):
        """list of (mode, arg, entry): mode name -> arg is the key; mode type -> arg is the Go type"""
        reqs = []
        seenk, seent = set(), set()
        for e in L:
            k = e.key()
            if k not in seenk:
                seenk.add(k)
                res = self.resolve_name(L, k)
                if not res.crossing and ok_name(k):
                    reqs.append(('name', k, res))
            cn = e.canon()
            if cn not in seent:
                seent.add(cn)
                res = self.resolve_type(L, cn)
                if not res.crossing and res.f.name != '_':
                    reqs.append(('type', res.gotype(), res))
        return reqs

    def gen_c01(self, st, L):
        S = st.name
        reqs = self.positive_requests(st, L)
        if not reqs:
            return
        r = self.r
        byname = [x for x in reqs if x[0] == 'name']
        bytype = [x for x in reqs if x[0] == 'type']
        groups = []
        for pool in (byname, bytype):
            pool = pool[:]
            r.shuffle(pool)
            # every request once through K=1 (family alternates), then a few K-tuples covering 2..9
            for i, x in enumerate(pool):
                groups.append(([x], 'ForProduct' if (i + len(groups)) % 2 == 0 else 'ForSpectrum'))
            if pool:
                for K in sorted(set([2, 3, r.randint(4, 6), r.randint(7, 9)])):
                    groups.append(([r.choice(pool) for _ in range(K)], r.choice(['ForProduct', 'ForSpectrum'])))
        for grp, fam0 in groups:
            K = len(grp)
            mode = grp[0][0]
            for fam in (fam0,):
                targs = ', '.join([S] + [x[2].gotype() for x in grp])
                args = ', '.join(q(x[1]) for x in grp) if mode == 'name' else ''
                req = '%s%d[%s](%s)' % (fam, K, targs.replace('\n', ' '), args)
                self.case_begin('C01', '%s%d/by-%s' % (fam, K, mode), st, req, 'foci ' + ', '.join(x[2].sel() for x in grp))
                vs = ', '.join('l%d' % i for i in range(K))
                decl = 'optics.Lens[%s, %%s]' % S if fam == 'ForProduct' else 'optics.Reflector[%s]'
                for i, x in enumerate(grp):
                    T = x[2].gotype()
                    self.w('\tvar l%d %s' % (i, (decl % T) if fam == 'ForProduct' else ('optics.Reflector[%s]' % T)))
                self.w('\tif pn, msg := rt.Derive(func() { %s = optics.%s%d[%s](%s) }); pn {\n\t\trt.Refused("C01", c, msg)\n\t\trt.End(c, %s, true)\n\t\treturn\n\t}' % (
                    vs, fam, K, targs, args, q(req)))
                for i, x in enumerate(grp):
                    e = x[2]
                    T = e.gotype()
                    if fam == 'ForProduct':
                        get, put = 'l%d.Get(s)' % i, 'l%d.Put(s, unbox[%s](v))' % (i, T)
                    else:
                        get, put = 'l%d.Gett(s)' % i, 'unbox[*%s](l%d.Putt(s, unbox[%s](v)))' % (S, i, T)
                    self.w('\trt.CheckOptic(%s)' % self.optic_lit('C01', st, e, get, put))
                self.case_end('C01/%s/%s' % (S, req), True)

    def gen_wide(self, st, L):
        """wide containers: the entries around the threshold, by name and by entry; entries behind the embedded
        pointer must be refused whatever their number"""
        S = st.name
        for i in st.window:
            e = L[i]
            T = e.gotype()
            k = e.key()
            if e.crossing:
                req = 'ForProduct1/ForSpectrum1[%s, %s](%s), NewLens/NewReflector(hseq.New[%s]()[%d])' % (S, T, k, S, i)
                self.case_begin('C02', 'wide/must-fail', st, req, 'panic: entry %d (%s) is reached through an embedded pointer' % (i, e.sel()))
                self.w('\tif pn, _ := rt.Derive(func() { _ = optics.ForProduct1[%s, %s](%s) }); !pn {\n\t\trt.Accepted("C02", c, "lens by name: entry %d is reached through an embedded pointer")\n\t}' % (S, T, q(k), i))
                self.w('\tif pn, _ := rt.Derive(func() { _ = optics.ForSpectrum1[%s, %s](%s) }); !pn {\n\t\trt.Accepted("C02", c, "reflector by name: entry %d is reached through an embedded pointer")\n\t}' % (S, T, q(k), i))
                self.w('\tif pn, _ := rt.Derive(func() { _ = optics.NewLens[%s, %s](hseq.New[%s]()[%d]) }); !pn {\n\t\trt.Accepted("C02", c, "lens by entry: entry %d is reached through an embedded pointer")\n\t}' % (S, T, S, i, i))
                self.w('\tif pn, _ := rt.Derive(func() { _ = optics.NewReflector[%s, %s](hseq.New[%s]()[%d]) }); !pn {\n\t\trt.Accepted("C02", c, "reflector by entry: entry %d is reached through an embedded pointer")\n\t}' % (S, T, S, i, i))
                self.case_end('C02/%s/wide/%d' % (S, i), True)
                continue
            req = 'ForProduct1/ForSpectrum1[%s, %s](%s), NewLens/NewReflector(hseq.New[%s]()[%d])' % (S, T, k, S, i)
            self.case_begin('C01', 'wide/entry-%s' % ('below' if i < 60 else 'at-threshold'), st, req, 'focus ' + e.sel())
            self.w('\tvar l, l2 optics.Lens[%s, %s]\n\tvar rf, rf2 optics.Reflector[%s]' % (S, T, T))
            self.w('\tif pn, msg := rt.Derive(func() {\n\t\tseq := hseq.New[%s]()\n\t\tl = optics.NewLens[%s, %s](seq[%d])\n\t\trf = optics.NewReflector[%s, %s](seq[%d])\n\t\tl2 = optics.ForProduct1[%s, %s](%s)\n\t\trf2 = optics.ForSpectrum1[%s, %s](%s)\n\t}); pn {\n\t\trt.Refused("C01", c, msg)\n\t\trt.End(c, %s, true)\n\t\treturn\n\t}' % (
                S, S, T, i, S, T, i, S, T, q(k), S, T, q(k), q(req)))
            self.w('\trt.CheckOptic(%s)' % self.optic_lit('C01', st, e, 'l.Get(s)', 'l.Put(s, unbox[%s](v))' % T))
            self.w('\trt.CheckOptic(%s)' % self.optic_lit('C01', st, e, 'rf.Gett(s)', 'unbox[*%s](rf.Putt(s, unbox[%s](v)))' % (S, T)))
            self.w('\trt.CheckOptic(%s)' % self.optic_lit('C01', st, e, 'l2.Get(s)', 'l2.Put(s, unbox[%s](v))' % T))
            self.w('\trt.CheckOptic(%s)' % self.optic_lit('C01', st, e, 'rf2.Gett(s)', 'unbox[*%s](rf2.Putt(s, unbox[%s](v)))' % (S, T)))
            self.case_end('C01/%s/wide/%d' % (S, i), True)

    # values that live on the heap and are recognisable as number i: (constructor body, check body) per focus type
    GCVALS = {
        '*int':           ('p := new(int)\n\t\t*p = i\n\t\treturn p', 'p := v.(*int)\n\t\treturn p != nil && *p == i'),
        '*string':        ('s := fmt.Sprint("gc-", i)\n\t\treturn &s', 'p := v.(*string)\n\t\treturn p != nil && *p == fmt.Sprint("gc-", i)'),
        'string':         ('return fmt.Sprint("gc-", i)', 'return v.(string) == fmt.Sprint("gc-", i)'),
        'MyStr':          ('return MyStr(fmt.Sprint("gc-", i))', 'return string(v.(MyStr)) == fmt.Sprint("gc-", i)'),
        'xa.Str':         ('return xa.Str(fmt.Sprint("gc-", i))', 'return string(v.(xa.Str)) == fmt.Sprint("gc-", i)'),
        '[]byte':         ('return []byte(fmt.Sprint("gc-", i))', 'return string(v.([]byte)) == fmt.Sprint("gc-", i)'),
        'MyBytes':        ('return MyBytes(fmt.Sprint("gc-", i))', 'return string(v.(MyBytes)) == fmt.Sprint("gc-", i)'),
        '[]int':          ('return []int{i, -i, i}', 'x := v.([]int)\n\t\treturn len(x) == 3 && x[0] == i && x[1] == -i && x[2] == i'),
        '[2]string':      ('return [2]string{fmt.Sprint("gc-", i), fmt.Sprint("cg-", i)}', 'x := v.([2]string)\n\t\treturn x[0] == fmt.Sprint("gc-", i) && x[1] == fmt.Sprint("cg-", i)'),
        '[33]string':     ('var a [33]string\n\t\tfor k := range a {\n\t\t\ta[k] = fmt.Sprint("gc-", i, "-", k)\n\t\t}\n\t\treturn a',
                           'a := v.([33]string)\n\t\tfor k := range a {\n\t\t\tif a[k] != fmt.Sprint("gc-", i, "-", k) {\n\t\t\t\treturn false\n\t\t\t}\n\t\t}\n\t\treturn true'),
        'map[string]int': ('return map[string]int{"id": i, fmt.Sprint("k", i): -i}', 'm := v.(map[string]int)\n\t\treturn len(m) == 2 && m["id"] == i && m[fmt.Sprint("k", i)] == -i'),
        'any':            ('p := new([3]int)\n\t\t*p = [3]int{i, -i, i}\n\t\treturn any(p)', 'p, ok := v.(*[3]int)\n\t\treturn ok && p != nil && *p == [3]int{i, -i, i}'),
        'error':          ('return fmt.Errorf("gc-%d", i)', 'e, ok := v.(error)\n\t\treturn ok && e != nil && e.Error() == fmt.Sprint("gc-", i)'),
        'fmt.Stringer':   ('return strImpl(fmt.Sprint("gc-", i))', 's, ok := v.(fmt.Stringer)\n\t\treturn ok && s != nil && s.String() == strImpl(fmt.Sprint("gc-", i)).String()'),
        'chan int':       ('c := make(chan int, 1)\n\t\tc <- i\n\t\treturn c', 'c := v.(chan int)\n\t\tif c == nil || len(c) != 1 {\n\t\t\treturn false\n\t\t}\n\t\tx := <-c\n\t\tc <- x\n\t\treturn x == i'),
    }

    def gen_gc(self, st, L):
        """hand-over of pointer-holding values through lens and reflector while the collector runs"""
        S = st.name
        cand = [e for e in L if not e.crossing and ok_name(e.key()) and self.resolve_name(L, e.key()) is e
                and ((e.f.struct is None and e.gotype() in self.GCVALS) or (e.f.struct is not None and e.f.ptr))]
        self.r.shuffle(cand)
        for n, e in enumerate(cand[:3]):
            T = e.gotype()
            k = e.key()
            if e.f.struct is not None:
                E = e.f.struct.name
                mk = 'p := new(%s)\n\t\tfill_%s(p, i)\n\t\treturn p' % (E, E)
                ck = 'p := v.(*%s)\n\t\tif p == nil {\n\t\t\treturn false\n\t\t}\n\t\tq := new(%s)\n\t\tfill_%s(q, i)\n\t\treturn rt.Eq(*p, *q)' % (E, E, E)
            else:
                mk, ck = self.GCVALS[T]
            fam = 'ForProduct1' if n % 2 == 0 else 'ForSpectrum1'
            req = 'hand-over through %s[%s, %s](%s) under garbage collection' % (fam, S, T, k)
            self.case_begin('C01', 'gc-handover/%s' % ('lens' if fam == 'ForProduct1' else 'reflector'), st, req, 'the value put is the value got, however the collector runs')
            if fam == 'ForProduct1':
                self.w('\tvar l optics.Lens[%s, %s]' % (S, T))
                get, put = 'l.Get(s)', 'l.Put(s, unbox[%s](v))' % T
            else:
                self.w('\tvar l optics.Reflector[%s]' % T)
                get, put = 'l.Gett(s)', 'unbox[*%s](l.Putt(s, unbox[%s](v)))' % (S, T)
            self.w('\tif pn, msg := rt.Derive(func() { l = optics.%s[%s, %s](%s) }); pn {\n\t\trt.Refused("C01", c, msg)\n\t\trt.End(c, %s, true)\n\t\treturn\n\t}' % (fam, S, T, q(k), q(req)))
            self.w('\trt.GCHandover(%s, *new(%s), func(i int) any {\n\t\t%s\n\t}, func(v any, i int) bool {\n\t\t%s\n\t})' % (self.optic_lit('C01', st, e, get, put), T, mk, ck))
            self.case_end('C01/%s/%s' % (S, req), True)

    def emit_prime(self, st, e):
        """the struct types an entry is embedded through are first used as containers of their own (valid optics
        for their own fields), in the same process, before the outer derivation is attempted"""
        s = st
        for name in e.path:
            f = next(g for g in s.fields if g.name == name)
            s = f.struct
            subL = listing(s)
            for se in subL[:2]:
                if not se.crossing and ok_name(se.key()) and self.resolve_name(subL, se.key()) is se:
                    self.w('\trt.Derive(func() {\n\t\t_ = optics.ForProduct1[%s, %s](%s)\n\t\t_ = optics.ForSpectrum1[%s, %s](%s)\n\t})' % (s.name, se.gotype(), q(se.key()), s.name, se.gotype(), q(se.key())))

    def emit_prime_all(self, st, seen=None):
        seen = seen if seen is not None else set()
        for f in st.fields:
            if f.embedded and f.struct is not None and f.struct.name not in seen:
                seen.add(f.struct.name)
                s = f.struct
                subL = listing(s)
                for se in subL[:2]:
                    if not se.crossing and ok_name(se.key()) and self.resolve_name(subL, se.key()) is se:
                        self.w('\trt.Derive(func() {\n\t\t_ = optics.ForProduct1[%s, %s](%s)\n\t\t_ = optics.ForSpectrum1[%s, %s](%s)\n\t})' % (s.name, se.gotype(), q(se.key()), s.name, se.gotype(), q(se.key())))
                self.emit_prime_all(s, seen)

    def gen_by_entry(self, st, L):
        """NewLens / NewReflector applied to the i-th entry of the unfolding focus that very entry — also for
        shadowed entries (same key as an earlier one) that no by-name request can reach"""
        S = st.name
        r = self.r
        idxs = [i for i, e in enumerate(L) if not e.crossing and e.f.name != '_']
        shadowed = [i for i in idxs if self.resolve_name(L, L[i].key()) is not L[i]]
        others = [i for i in idxs if i not in shadowed]
        r.shuffle(others)
        for i in shadowed[:6] + others[:3]:
            e = L[i]
            T = e.gotype()
            req = 'NewLens/NewReflector[%s, %s](hseq.New[%s]()[%d])' % (S, T.replace('\n', ' '), S, i)
            self.case_begin('C01', 'by-entry', st, req, 'focus ' + e.sel())
            self.w('\tvar l optics.Lens[%s, %s]\n\tvar rf optics.Reflector[%s]' % (S, T, T))
            self.w('\tif pn, msg := rt.Derive(func() {\n\t\tseq := hseq.New[%s]()\n\t\tl = optics.NewLens[%s, %s](seq[%d])\n\t\trf = optics.NewReflector[%s, %s](seq[%d])\n\t}); pn {\n\t\trt.Refused("C01", c, msg)\n\t\trt.End(c, %s, true)\n\t\treturn\n\t}' % (S, S, T, i, S, T, i, q(req)))
            self.w('\trt.CheckOptic(%s)' % self.optic_lit('C01', st, e, 'l.Get(s)', 'l.Put(s, unbox[%s](v))' % T))
            self.w('\trt.CheckOptic(%s)' % self.optic_lit('C01', st, e, 'rf.Gett(s)', 'unbox[*%s](rf.Putt(s, unbox[%s](v)))' % (S, T)))
            self.case_end('C01/%s/%s' % (S, req), True)
        crossing = [i for i, e in enumerate(L) if e.crossing]
        r.shuffle(crossing)
        for i in crossing[:3]:
            e = L[i]
            T = e.gotype()
            req = 'NewLens[%s, %s](hseq.New[%s]()[%d])' % (S, T.replace('\n', ' '), S, i)
            self.case_begin('C02', 'by-entry/must-fail', st, req, 'panic: entry %s is reached through an embedded pointer' % e.sel())
            self.emit_prime(st, e)
            self.w('\tif pn, _ := rt.Derive(func() { _ = optics.NewLens[%s, %s](hseq.New[%s]()[%d]) }); !pn {\n\t\trt.Accepted("C02", c, "entry is reached through an embedded pointer")\n\t}' % (S, T, S, i))
            self.w('\tif pn, _ := rt.Derive(func() { _ = optics.NewReflector[%s, %s](hseq.New[%s]()[%d]) }); !pn {\n\t\trt.Accepted("C02", c, "entry is reached through an embedded pointer (reflector)")\n\t}' % (S, T, S, i))
            self.case_end('C02/%s/%s' % (S, req), True)

    # -------- C02: derivations that must fail, wrong dynamic arguments
    def gen_c02(self, st, L):
        S = st.name
        r = self.r
        neg = []   # (family-call-expr, detail)
        keys = []
        for e in L:
            if e.key() not in keys:
                keys.append(e.key())
        canons = {e.canon() for e in L}
        # unknown names
        for k in ['nope', keys[0] + '_', keys[0].lower() + 'Q']:
            if k not in keys:
                e0 = self.resolve_name(L, keys[0])
                neg.append(('1', [e0.gotype()], [k], 'unknown name %s' % k))
        # types no field has
        for t in BASE:
            if t.canon not in canons and len([n for n in neg if n[3].startswith('no field')]) < 4:
                neg.append(('1', [t.go], None, 'no field of type %s' % t.go.replace('\n', ' ')))
        # name whose field has another type (near misses)
        for k in keys:
            e = self.resolve_name(L, k)
            if not ok_name(k):
                continue
            base = e.gotype()
            miss = list(NEAR.get(base, []))
            if e.f.struct is not None:
                miss = ['int', 'any'] + ([('*' if not e.f.ptr else '') + e.f.struct.name])
            else:
                miss += ['*' + base if not base.startswith('*') and '\n' not in base else 'int']
            for m in miss[:6]:
                if canon_of(m) != e.canon():
                    neg.append(('1', [m], [k], 'field %s has type %s, not %s' % (k, base.replace('\n', ' '), m)))
        # too few names for K >= 2
        okn = [k for k in keys if ok_name(k) and not self.resolve_name(L, k).crossing]
        if okn:
            for K in (2, 3, r.randint(4, 9)):
                tys = [self.resolve_name(L, okn[i % len(okn)]).gotype() for i in range(K)]
                names = [okn[i % len(okn)] for i in range(K - 1)]
                neg.append((str(K), tys, names, 'only %d names for %d foci' % (K - 1, K)))
        # foci reached through an embedded pointer: by name (if first match) and by type (if first match)
        for e in L:
            if not e.crossing:
                continue
            if self.resolve_name(L, e.key()) is e and ok_name(e.key()):
                neg.append(('1', [e.gotype()], [e.key()], 'field %s is reached through an embedded pointer' % e.sel()))
            if self.resolve_type(L, e.canon()) is e:
                neg.append(('1', [e.gotype()], None, 'first field of type %s is reached through an embedded pointer' % e.gotype().replace('\n', ' ')))
        # by name: K-tuple mixing a valid and an invalid focus type
        if len(okn) >= 2:
            e0, e1 = self.resolve_name(L, okn[0]), self.resolve_name(L, okn[1])
            bad = (NEAR.get(e1.gotype()) or ['chan int'])[0]
            if canon_of(bad) != e1.canon():
                neg.append(('2', [e0.gotype(), bad], [okn[0], okn[1]], 'second focus type %s does not match field %s' % (bad, okn[1])))
        shadow = []
        for i, e2 in enumerate(L):
            e1 = self.resolve_name(L, e2.key())
            if e1 is not e2 and e1.canon() != e2.canon() and ok_name(e2.key()) and not e2.crossing:
                shadow.append((i, e2, e1))
        for i, e2, e1 in shadow[:4]:
            T2 = e2.gotype()
            req = 'ForProduct1[%s, %s](%s) after valid derivations of the shadowed field' % (S, T2.replace('\n', ' '), e2.key())
            self.case_begin('C02', 'shadowed/must-fail', st, req, 'panic: name %s resolves to the first field of that key, whose type is %s' % (e2.key(), e1.gotype().replace('\n', ' ')))
            self.w('\trt.Derive(func() {\n\t\tseq := hseq.New[%s]()\n\t\t_ = optics.NewLens[%s, %s](seq[%d])\n\t\t_ = optics.NewReflector[%s, %s](seq[%d])\n\t})' % (S, S, T2, i, S, T2, i))
            if self.resolve_type(L, e2.canon()) is e2:
                self.w('\trt.Derive(func() { _ = optics.ForProduct1[%s, %s](); _ = optics.ForSpectrum1[%s, %s]() })' % (S, T2, S, T2))
            self.w('\tif pn, _ := rt.Derive(func() { _ = optics.ForProduct1[%s, %s](%s) }); !pn {\n\t\trt.Accepted("C02", c, "the name resolves to a field of another type (Lens)")\n\t}' % (S, T2, q(e2.key())))
            self.w('\tif pn, _ := rt.Derive(func() { _ = optics.ForSpectrum1[%s, %s](%s) }); !pn {\n\t\trt.Accepted("C02", c, "the name resolves to a field of another type (Reflector)")\n\t}' % (S, T2, q(e2.key())))
            self.w('\tif pn, _ := rt.Derive(func() { _ = optics.ForShape2[%s, %s, %s](%s, %s) }); !pn {\n\t\trt.Accepted("C02", c, "the name resolves to a field of another type (Shape2, second focus)")\n\t}' % (S, e1.gotype(), T2, q(e1.key()), q(e2.key())))
            self.case_end('C02/%s/%s' % (S, req), True)
        # the field's type is a named type of the package; the request names a function-local type of the same name
        # (it prints alike, it is another type, of another size)
        for e in L:
            T = e.gotype()
            if e.crossing or e.f.struct is not None or T not in ('MyStr', 'MyInt', 'MyF', 'MyI8', 'MyBytes') or not ok_name(e.key()) or self.resolve_name(L, e.key()) is not e:
                continue
            req = 'ForProduct1/ForSpectrum1[%s, <local type %s>](%s)' % (S, T, e.key())
            self.case_begin('C02', 'local-lookalike/must-fail', st, req, 'panic: the field has the package-level type %s, the focus is a local type of the same name' % T)
            self.w('\tbase := optics.ForProduct1[%s, %s](%s) // the valid derivation comes first\n\t_ = base' % (S, T, q(e.key())))
            self.w('\ttype %s struct{ a, b, c, d uint64 }' % T)
            self.w('\tvar l optics.Lens[%s, %s]' % (S, T))
            self.w('\tif pn, _ := rt.Derive(func() { l = optics.ForProduct1[%s, %s](%s) }); !pn {' % (S, T, q(e.key())))
            self.w('\t\trt.Accepted("C02", c, "lens: the focus type only prints like the field\'s type")')
            self.w('\t\trt.UseBogus("C02", c, fill_%s, func(s *%s) { l.Get(s); l.Put(s, %s{1, 2, 3, 4}) })' % (S, S, T))
            self.w('\t}')
            self.w('\tif pn, _ := rt.Derive(func() { _ = optics.ForSpectrum1[%s, %s](%s) }); !pn {\n\t\trt.Accepted("C02", c, "reflector: the focus type only prints like the field\'s type")\n\t}' % (S, T, q(e.key())))
            self.case_end('C02/%s/%s' % (S, req), True)
            break
        fams = ['ForProduct', 'ForSpectrum', 'ForShape']
        crossing_neg = [n for n in neg if 'embedded pointer' in n[3]]
        other_neg = [n for n in neg if 'embedded pointer' not in n[3]]
        r.shuffle(other_neg)
        r.shuffle(crossing_neg)
        neg = other_neg[:12] + crossing_neg[:6]
        for i, (K, tys, names, detail) in enumerate(neg):
            K = int(K)
            for fam in [fams[i % 3]] + (['ForProduct'] if 'embedded pointer' in detail and i % 3 != 0 else []):
                if fam == 'ForShape' and K < 2:
                    fam = 'ForProduct'
                targs = ', '.join([S] + tys)
                args = ', '.join(q(n) for n in names) if names else ''
                req = '%s%d[%s](%s)' % (fam, K, targs.replace('\n', ' '), args)
                self.case_begin('C02', '%s/must-fail' % fam, st, req, 'panic: ' + detail)
                if 'embedded pointer' in detail:
                    self.emit_prime_all(st)
                self.emit_must_fail(st, L, fam, K, tys, names, targs, args, detail)
                self.case_end('C02/%s/%s' % (S, req), True)
        # container type parameter that is not a struct
        e0 = None
        for e in L:
            if not e.crossing and ok_name(e.key()) and self.resolve_name(L, e.key()) is e:
                e0 = e
                break
        if e0 is not None:
            T = e0.gotype()
            for cont, how in (('*' + S, 'pointer to the struct'), ('[]' + S, 'slice'), ('int', 'int')):
                for fam, call in (('ForProduct1', 'optics.ForProduct1[%s, %s](%s)'), ('ForSpectrum1', 'optics.ForSpectrum1[%s, %s](%s)'),
                                  ('ForProduct1/by-type', 'optics.ForProduct1[%s, %s]()'), ('ForShape2', 'optics.ForShape2[%s, %s, %s](%s, %s)')):
                    if fam == 'ForShape2':
                        expr = call % (cont, T, T, q(e0.key()), q(e0.key()))
                    elif fam.endswith('by-type'):
                        expr = call % (cont, T)
                    else:
                        expr = call % (cont, T, q(e0.key()))
                    self.case_begin('C02', 'container/%s' % fam, st, expr.replace('\n', ' '), 'panic: container type parameter is a %s, not a struct' % how)
                    if cont.startswith('*') and fam == 'ForProduct1':
                        # if silently accepted, show what the optic does: S sits in a guard, the lens is handed **S
                        self.w('\tvar l optics.Lens[*%s, %s]' % (S, T))
                        self.w('\tif pn, _ := rt.Derive(func() { l = %s }); !pn {' % expr)
                        self.w('\t\trt.Accepted("C02", c, "container type parameter is a pointer")')
                        self.w('\t\trt.UsePointerContainer("C02", c, fill_%s, func(pp **%s) { l.Put(pp, l.Get(pp)) })' % (S, S))
                        self.w('\t}')
                    else:
                        self.w('\tif pn, _ := rt.Derive(func() { _ = %s }); !pn {\n\t\trt.Accepted("C02", c, "container type parameter is not a struct")\n\t}' % expr)
                    self.case_end('C02/%s/%s' % (S, expr.replace('\n', ' ')), True)
            # BiMapX with a pointer container
            for e in L:
                if e.crossing or not ok_name(e.key()) or self.resolve_name(L, e.key()) is not e:
                    continue
                bm = {'string': ('BiMapS', 'MyStr'), 'MyStr': ('BiMapS', 'string'), 'int32': ('BiMapI', 'int'), 'int8': ('BiMapI', 'int64'), 'float64': ('BiMapF', 'float32'), '[]byte': ('BiMapB', 'MyBytes')}.get(e.gotype())
                if bm:
                    expr = 'optics.%s[*%s, %s, %s](%s)' % (bm[0], S, e.gotype(), bm[1], q(e.key()))
                    self.case_begin('C02', 'container/%s' % bm[0], st, expr, 'panic: container type parameter is a pointer')
                    self.w('\tif pn, _ := rt.Derive(func() { _ = %s }); !pn {\n\t\trt.Accepted("C02", c, "container type parameter is a pointer")\n\t}' % expr)
                    self.case_end('C02/%s/%s' % (S, expr), True)
                    break
            # Reflector handed something that is not *S
            self.case_begin('C02', 'reflector/wrong-argument', st, 'ForSpectrum1[%s, %s](%s).Gett/Putt(wrong dynamic type)' % (S, T.replace('\n', ' '), e0.key()), 'panic, nothing modified')
            self.w('\tvar l optics.Reflector[%s]' % T)
            self.w('\tif pn, msg := rt.Derive(func() { l = optics.ForSpectrum1[%s, %s](%s) }); pn {\n\t\trt.Refused("C02", c, msg)\n\t\trt.End(c, "C02/refl", true)\n\t\treturn\n\t}' % (S, T, q(e0.key())))
            self.w('\tv := %s[1]' % self.pool_expr(e0.f))
            self.w('\tg := new(struct {\n\t\tpre  [32]byte\n\t\ts    %s\n\t\tpost [32]byte\n\t})\n\tfill_%s(&g.s, 4)' % (S, S))
            self.w('\tmem, size := unsafe.Pointer(g), unsafe.Sizeof(*g)')
            self.w('\tps := &g.s\n\tpps := &ps')
            self.w('\tother := new(struct {\n\t\tq [4]uint64\n\t\tw string\n\t})')
            self.w('\tsl := []%s{g.s, g.s}\n\tarr := &[1]%s{g.s}\n\tmp := map[string]%s{"a": g.s}\n\tchn := make(chan %s, 1)\n\t_, _, _, _ = sl, arr, mp, chn' % (S, S, S, S))
            # types Go lets one CONVERT to *S: a pointer to a defined type over S, a defined pointer type over *S
            self.w('\ttype draft %s\n\ttype ref *%s' % (S, S))
            self.w('\tdr := new(struct {\n\t\tpre  [32]byte\n\t\ts    draft\n\t\tpost [32]byte\n\t})\n\tdr.s = draft(g.s)\n\trf := ref(ps)')
            for what, arg, m, sz in (
                ('the struct by value', 'g.s', 'mem', 'size'), ('pointer to pointer', 'pps', 'mem', 'size'), ('pointer to another struct', 'other', 'unsafe.Pointer(other)', 'unsafe.Sizeof(*other)'),
                ('untyped nil', 'nil', 'nil', '0'), ('an int', '42', 'nil', '0'), ('unsafe.Pointer to the struct', 'unsafe.Pointer(ps)', 'mem', 'size'),
                ('uintptr of the struct', 'uintptr(unsafe.Pointer(ps))', 'mem', 'size'),
                ('a slice of the struct', 'sl', 'unsafe.Pointer(&sl[0])', '2*unsafe.Sizeof(sl[0])'), ('pointer to an array of the struct', 'arr', 'unsafe.Pointer(arr)', 'unsafe.Sizeof(*arr)'),
                ('typed nil *int', '(*int)(nil)', 'nil', '0'), ('typed nil pointer to pointer', '(**%s)(nil)' % S, 'nil', '0'),
                ('typed nil pointer to another struct', '(*struct {\n\t\tq [4]uint64\n\t\tw string\n\t})(nil)', 'nil', '0'),
                ('typed nil pointer to a look-alike', '(*xa.Box)(nil)', 'nil', '0'),
                ('pointer to a defined type over the struct (convertible to *S, not *S)', '&dr.s', 'unsafe.Pointer(dr)', 'unsafe.Sizeof(*dr)'),
                ('a defined pointer type over *S', 'rf', 'mem', 'size'), ('typed nil of a defined pointer type', 'ref(nil)', 'nil', '0')):
                self.w('\trt.WrongArg("C02", c, %s, %s, %s, func() { l.Gett(%s) })' % (q('Gett(' + what + ')'), m, sz, arg))
                self.w('\trt.WrongArg("C02", c, %s, %s, %s, func() { l.Putt(%s, v) })' % (q('Putt(' + what + ')'), m, sz, arg))
            # containers the run time owns: only read through them (a silently accepted write could corrupt the run time)
            self.w('\trt.WrongArg("C02", c, "Gett(a map of the struct)", nil, 0, func() { l.Gett(mp) })')
            self.w('\trt.WrongArg("C02", c, "Gett(a channel of the struct)", nil, 0, func() { l.Gett(chn) })')
            self.case_end('C02/%s/reflector-wrong-arg' % S, True)

    def emit_must_fail(self, st, L, fam, K, tys, names, targs, args, detail):
        S = st.name
        if fam == 'ForShape':
            self.w('\tif pn, _ := rt.Derive(func() { _ = optics.ForShape%d[%s](%s) }); !pn {\n\t\trt.Accepted("C02", c, %s)\n\t}' % (K, targs, args, q(detail)))
            return
        if names and K == 1:
            e = self.resolve_name(L, names[0])
            if e is not None and not e.crossing:
                # the same name was derived with its true type just before: the refusal must not depend on history
                self.w('\trt.Derive(func() { _ = optics.ForProduct1[%s, %s](%s); _ = optics.ForSpectrum1[%s, %s](%s) })' % (S, e.gotype(), q(names[0]), S, e.gotype(), q(names[0])))
        if K == 1 and fam == 'ForProduct':
            # keep the optic so that, if it was silently accepted, its effect on memory is shown
            T = tys[0]
            self.w('\tvar l optics.Lens[%s, %s]' % (S, T))
            self.w('\tif pn, _ := rt.Derive(func() { l = optics.ForProduct1[%s](%s) }); !pn {' % (targs, args))
            self.w('\t\trt.Accepted("C02", c, %s)' % q(detail))
            self.w('\t\trt.UseBogus("C02", c, fill_%s, func(s *%s) { l.Get(s); l.Put(s, *new(%s)) })' % (S, S, T))
            self.w('\t}')
            return
        self.w('\tif pn, _ := rt.Derive(func() { %s optics.%s%d[%s](%s) }); !pn {\n\t\trt.Accepted("C02", c, %s)\n\t}' % (
            ', '.join(['_'] * K) + ' =', fam, K, targs, args, q(detail)))

    # -------- C04: composed optics
    def gen_c04(self, st, L):
        S = st.name
        r = self.r
        plain = [e for e in L if not e.crossing and ok_name(e.key()) and self.resolve_name(L, e.key()) is e]
        if not plain:
            return
        # --- Join through non-embedded struct-typed value fields (depth 1..3)
        def joins(s, lens_expr, path, depth, outer=None):
            # the intermediate focus is any struct-typed value field the name resolves to without crossing a pointer:
            # a direct field, or one promoted from a value-embedded struct (the outer lens then carries a root offset)
            out = []
            sL = listing(s)
            for en in sL:
                f = en.f
                if f.struct is not None and not f.ptr and not f.embedded and not en.crossing and ok_name(f.key()) and self.resolve_name(sL, f.key()) is en:
                    sub = f.struct
                    here = path + en.path + [f.name]
                    out.append((sub, here, (lens_expr or []) + [(s.name, sub.name, f.key())], outer or here))
                    if depth < 3:
                        out += joins(sub, (lens_expr or []) + [(s.name, sub.name, f.key())], here, depth + 1, outer or here)
            return out
        for sub, path, chain, outerp in joins(st, None, [], 1):
            subL = listing(sub)
            leafs = [e for e in subL if not e.crossing and ok_name(e.key()) and self.resolve_name(subL, e.key()) is e]
            # inner foci: the first direct fields and some promoted from structs embedded further inside the intermediate
            promoted = [e for e in leafs if e.path]
            for e in leafs[:3] + [e for e in promoted if e not in leafs[:3]][:2]:
                T = e.gotype()
                # build Join(Join(l1, l2), l3)...
                expr = 'optics.ForProduct1[%s, %s](%s)' % (chain[0][0], chain[0][1], q(chain[0][2]))
                for (a, b, k) in chain[1:]:
                    expr = 'optics.Join(%s, optics.ForProduct1[%s, %s](%s))' % (expr, a, b, q(k))
                expr = 'optics.Join(%s, optics.ForProduct1[%s, %s](%s))' % (expr, sub.name, T, q(e.key()))
                full = Entry(e.f, path + e.path, False)
                outer = '.'.join(outerp)   # the outermost intermediate field (may be promoted)
                req = 'Join depth %d -> %s' % (len(chain), full.sel())
                self.case_begin('C04', 'Join/depth%d' % len(chain), st, req, 'lens on the nested field')
                self.w('\tvar l optics.Lens[%s, %s]' % (S, T))
                self.w('\tif pn, msg := rt.Derive(func() { l = %s }); pn {\n\t\trt.Refused("C04", c, msg)\n\t\trt.End(c, %s, true)\n\t\treturn\n\t}' % (expr, q(req)))
                lit = self.optic_lit('C04', st, full, 'l.Get(s)', 'l.Put(s, unbox[%s](v))' % T)
                lit = lit.replace('{Off: off(s, &s.%s), Size: unsafe.Sizeof(s.%s)}' % (full.sel(), full.sel()), '{Off: off(s, &s.%s), Size: unsafe.Sizeof(s.%s)}' % (outer, outer))
                self.w('\trt.CheckOptic(%s)' % lit)
                self.case_end('C04/%s/%s' % (S, req), True)
        # --- BiMap / BiMapX / Getter / Setter on plain fields
        conv = {
            'int32':   ('int64', 'func(a int32) int64 { return int64(a) + 1000 }', 'func(b int64) int32 { return int32(b - 1000) }', ['1000', '999', '1001', '71000']),
            'string':  ('[]byte', 'func(a string) []byte { return []byte(a) }', 'func(b []byte) string { return string(b) }', ['[]byte{}', '[]byte("a")', '[]byte("xyz")']),
            'int8':    ('string', 'func(a int8) string { return fmt.Sprint(a) }', 'func(b string) int8 { var x int8; fmt.Sscan(b, &x); return x }', ['"0"', '"-128"', '"127"', '"5"']),
            'bool':    ('int', 'func(a bool) int { if a { return 1 }; return 0 }', 'func(b int) bool { return b == 1 }', ['0', '1', '1', '0']),
            'float64': ('MyF', 'func(a float64) MyF { return MyF(a) * 2 }', 'func(b MyF) float64 { return float64(b) / 2 }', ['MyF(0)', 'MyF(3)', 'MyF(-4.5)']),
        }
        bimapx = {'string': ('BiMapS', 'MyStr', ['MyStr("")', 'MyStr("q")', 'MyStr("zz")']), 'MyStr': ('BiMapS', 'string', ['""', '"a"', '"bc"']),
                  '[]byte': ('BiMapB', 'MyBytes', ['MyBytes(nil)', 'MyBytes{1}', 'MyBytes{}', 'MyBytes("ab")', 'make(MyBytes, 0, 8)']), 'MyBytes': ('BiMapB', '[]byte', ['[]byte(nil)', '[]byte{7}', '[]byte{}', '[]byte("cd")', 'make([]byte, 0, 8)']),
                  'int8': ('BiMapI', 'int64', ['0', '-128', '127', '9']), 'int32': ('BiMapI', 'MyInt', ['MyInt(0)', 'MyInt(-5)', 'MyInt(1 << 30)']),
                  'MyI8': ('BiMapI', 'int', ['0', '-128', '127']), 'int': ('BiMapI', 'int64', ['0', '-1', '1 << 40']),
                  'float32': ('BiMapF', 'float64', ['0', '1.5', '-2.25']), 'MyF': ('BiMapF', 'float64', ['0', '2.5', '-1e9'])}
        done = 0
        for e in plain:
            T = e.gotype()
            if T in conv and done < 6:
                Bt, fwd, bwd, vals = conv[T]
                base = 'optics.ForProduct1[%s, %s](%s)' % (S, T, q(e.key()))
                for kind, expr in (('lens', 'optics.BiMap(%s, %s, %s)' % (base, fwd, bwd)), ('getter', 'optics.Getter(%s, %s)' % (base, fwd)), ('setter', 'optics.Setter(%s, %s)' % (base, bwd))):
                    done += 1
                    req = '%s on %s' % ({'lens': 'BiMap', 'getter': 'Getter', 'setter': 'Setter'}[kind], e.sel())
                    self.case_begin('C04', req.split(' ')[0], st, req, kind)
                    self.w('\tvar l optics.Lens[%s, %s]' % (S, Bt))
                    self.w('\tfwd, bwd := %s, %s\n\t_, _ = fwd, bwd' % (fwd, bwd))
                    self.w('\tif pn, msg := rt.Derive(func() { l = %s }); pn {\n\t\trt.Refused("C04", c, msg)\n\t\trt.End(c, %s, true)\n\t\treturn\n\t}' % (expr, q(req)))
                    self.emit_view_optic(st, e, Bt, 'fwd(s.%s)' % e.sel(), 's.%s = bwd(unbox[%s](v))' % (e.sel(), Bt), vals, kind)
                    self.case_end('C04/%s/%s' % (S, req), True)
            if T in bimapx:
                fn, Bt, vals = bimapx[T]
                for byname in (True, False):
                    if not byname and self.resolve_type(L, e.canon()) is not e:
                        continue
                    expr = 'optics.%s[%s, %s, %s](%s)' % (fn, S, T, Bt, q(e.key()) if byname else '')
                    req = '%s on %s' % (fn, e.sel()) + ('' if byname else ' by type')
                    self.case_begin('C04', fn, st, req, 'lens on the converted value')
                    self.w('\tvar l optics.Lens[%s, %s]' % (S, Bt))
                    self.w('\tif pn, msg := rt.Derive(func() { l = %s }); pn {\n\t\trt.Refused("C04", c, msg)\n\t\trt.End(c, %s, true)\n\t\treturn\n\t}' % (expr, q(req)))
                    self.emit_view_optic(st, e, Bt, '%s(s.%s)' % (Bt, e.sel()), 's.%s = %s(unbox[%s](v))' % (e.sel(), T, Bt), vals, 'lens')
                    if fn == 'BiMapB':
                        # the converted value IS the stored slice (B(a) shares storage, length and capacity): what is put is what is
                        # stored, spare capacity included
                        self.w('\t{\n\t\ts := new(%s)\n\t\tfill_%s(s, 2)\n\t\ts.%s = make(%s, 3, 8)' % (S, S, e.sel(), T))
                        self.w('\t\tif g := l.Get(s); len(g) != 3 || cap(g) != 8 || &g[0] != &s.%s[0] {\n\t\t\trt.Vio("C04", c, "bimapb-identity", fmt.Sprintf("Get returned a slice of len %%d cap %%d, the stored one has len 3 cap 8 (the converted value is the stored slice itself)", len(g), cap(g)))\n\t\t}' % e.sel())
                        self.w('\t\tv := make(%s, 2, 9)\n\t\tl.Put(s, v)' % Bt)
                        self.w('\t\tif f := s.%s; len(f) != 2 || cap(f) != 9 || &f[0] != &v[0] {\n\t\t\trt.Vio("C04", c, "bimapb-identity", fmt.Sprintf("Put stored a slice of len %%d cap %%d, the value put has len 2 cap 9 (exactly the converted value is written)", len(f), cap(f)))\n\t\t}\n\t}' % e.sel())
                    self.case_end('C04/%s/%s' % (S, req), True)
        # --- ForShapeK over pairwise disjoint foci
        for K in sorted(set([2, 3, r.randint(4, 9)])):
            if len(plain) < K:
                continue
            grp = r.sample(plain, K)
            # disjoint: no focus contained in another (an embedded struct and one of its own fields overlap)
            if any(a is not b and (a.path + [a.f.name] == b.path[:len(a.path) + 1]) for a in grp for b in grp):
                continue
            targs = ', '.join([S] + [e.gotype() for e in grp])
            args = ', '.join(q(e.key()) for e in grp)
            req = 'ForShape%d[%s](%s)' % (K, targs.replace('\n', ' '), args)
            self.case_begin('C04', 'ForShape%d' % K, st, req, 'positional tuple lens')
            self.w('\tvar l optics.Lens%d[%s]' % (K, targs))
            self.w('\tif pn, msg := rt.Derive(func() { l = optics.ForShape%d[%s](%s) }); pn {\n\t\trt.Refused("C04", c, msg)\n\t\trt.End(c, %s, true)\n\t\treturn\n\t}' % (K, targs, args, q(req)))
            vs = ', '.join('v%d' % i for i in range(K))
            self.w('\tpools := [][]any{%s}' % ', '.join('box(%s)' % self.pool_expr(e.f) for e in grp))
            self.w('\ttuples := rt.Tuples(pools, 5)')
            self.w('\trt.CheckOptic(rt.Optic[%s]{Prop: "C04", C: c, Kind: "lens",' % S)
            self.w('\t\tGet: func(s *%s) any {\n\t\t\t%s := l.Get(s)\n\t\t\treturn []any{%s}\n\t\t},' % (S, vs, vs))
            self.w('\t\tPut: func(s *%s, v any) *%s {\n\t\t\tt := v.([]any)\n\t\t\treturn l.Put(s, %s)\n\t\t},' % (S, S, ', '.join('unbox[%s](t[%d])' % (e.gotype(), i) for i, e in enumerate(grp))))
            self.w('\t\tRead: func(s *%s) any { return []any{%s} },' % (S, ', '.join('s.' + e.sel() for e in grp)))
            self.w('\t\tWrite: func(s *%s, v any) {\n\t\t\tt := v.([]any)\n%s\n\t\t},' % (S, '\n'.join('\t\t\ts.%s = unbox[%s](t[%d])' % (e.sel(), e.gotype(), i) for i, e in enumerate(grp))))
            self.w('\t\tRegions: func(s *%s) []rt.Region {\n\t\t\treturn []rt.Region{%s}\n\t\t},' % (S, ', '.join('{Off: off(s, &s.%s), Size: unsafe.Sizeof(s.%s)}' % (e.sel(), e.sel()) for e in grp)))
            self.w('\t\tFill: fill_%s, Vals: tuples})' % S)
            self.case_end('C04/%s/%s' % (S, req), True)
        # --- Iso / Morphism between this shape and a twin structure holding the same focus types
        grp = [e for e in plain if e.f.struct is None][:5]
        if len(grp) >= 1:
            K = len(grp)
            tw = 'Twin_%s' % S
            self.pending_types.append('type %s struct {\n\tPad0 int16\n%s\n}' % (tw, '\n'.join('\tT%d %s\n\tP%d uint8' % (i, e.gotype().replace('\n', '\n\t'), i) for i, e in enumerate(grp))))
            req = 'Iso/Morphism over %d foci' % K
            self.case_begin('C04', 'Iso', st, req, 'Forward then Inverse restores the source foci')
            isos = []
            for i, e in enumerate(grp):
                isos.append('optics.Iso(optics.ForProduct1[%s, %s](%s), optics.ForProduct1[%s, %s]("T%d"))' % (S, e.gotype(), q(e.key()), tw, e.gotype(), i))
            self.w('\tvar isos []optics.Isomorphism[%s, %s]' % (S, tw))
            self.w('\tif pn, msg := rt.Derive(func() {\n\t\tisos = []optics.Isomorphism[%s, %s]{\n\t\t\t%s,\n\t\t}\n\t}); pn {\n\t\trt.Refused("C04", c, msg)\n\t\trt.End(c, %s, true)\n\t\treturn\n\t}' % (S, tw, ',\n\t\t\t'.join(isos), q(req)))
            self.w('\tfillTwin := func(t *%s, k int) {\n\t\tt.Pad0 = int16(k)\n%s\n\t}' % (tw, '\n'.join('\t\t{\n\t\t\tp := %s\n\t\t\tt.T%d = p[(k+%d)%%len(p)]\n\t\t\tt.P%d = uint8(k + %d)\n\t\t}' % (self.pool_expr(e.f), i, i + 2, i, i) for i, e in enumerate(grp))))
            self.w('\trt.CheckIso(rt.IsoCase[%s, %s]{Prop: "C04", C: c, Isos: isos,' % (S, tw))
            self.w('\t\tMorph: func(xs ...optics.Isomorphism[%s, %s]) optics.Isomorphism[%s, %s] { return optics.Morphism(xs...) },' % (S, tw, S, tw))
            self.w('\t\tFillS: fill_%s, FillT: fillTwin,' % S)
            self.w('\t\tReadS: func(s *%s) []any { return []any{%s} },' % (S, ', '.join('s.' + e.sel() for e in grp)))
            self.w('\t\tReadT: func(t *%s) []any { return []any{%s} },' % (tw, ', '.join('t.T%d' % i for i in range(K))))
            self.w('\t\tRegS: func(s *%s) []rt.Region {\n\t\t\treturn []rt.Region{%s}\n\t\t},' % (S, ', '.join('{Off: off(s, &s.%s), Size: unsafe.Sizeof(s.%s)}' % (e.sel(), e.sel()) for e in grp)))
            self.w('\t\tRegT: func(t *%s) []rt.Region {\n\t\t\treturn []rt.Region{%s}\n\t\t}})' % (tw, ', '.join('{Off: off(t, &t.T%d), Size: unsafe.Sizeof(t.T%d)}' % (i, i) for i in range(K))))
            self.case_end('C04/%s/%s' % (S, req), True)

    def direct_first(self, s, f):
        e = self.resolve_name(listing(s), f.key())
        return e is not None and e.f is f and not e.path

    def emit_view_optic(self, st, e, Bt, read_expr, write_stmt, vals, kind):
        S = st.name
        self.w('\trt.CheckOptic(rt.Optic[%s]{Prop: "C04", C: c, Kind: %s,' % (S, q(kind)))
        self.w('\t\tGet: func(s *%s) any { return l.Get(s) },' % S)
        self.w('\t\tPut: func(s *%s, v any) *%s { return l.Put(s, unbox[%s](v)) },' % (S, S, Bt))
        self.w('\t\tRead: func(s *%s) any { return %s },' % (S, read_expr))
        if kind == 'getter':
            self.w('\t\tWrite: nil,')
        else:
            self.w('\t\tWrite: func(s *%s, v any) { %s },' % (S, write_stmt))
        self.w('\t\tRegions: func(s *%s) []rt.Region { return []rt.Region{{Off: off(s, &s.%s), Size: unsafe.Sizeof(s.%s)}} },' % (S, e.sel(), e.sel()))
        self.w('\t\tZero: *new(%s),' % Bt)
        self.w('\t\tFill: fill_%s, Vals: []any{%s}})' % (S, ', '.join('%s(%s)' % (Bt, v) for v in vals)))

    def emit_main(self, prop):
        self.w('var cases = []func(){')
        for fn in self.fnsby.get(prop, []):
            self.w('\t%s,' % fn)
        self.w('}')
        self.w()
        self.w('''func main() {
	rt.Rec = common.New(common.Prop, rt.Rule)
	defer rt.Rec.Finish()
	rt.Rec.Count("max_generated_struct_types", %d)
	rt.Rec.Count("max_generated_root_shapes", %d)
	for i, f := range cases {
		if i%%common.NBatch != common.Batch {
			continue
		}
		f()
	}
	if common.Batch == 0 {
		rt.MapLens()
		rt.JoinHeads()
		rt.JoinComputedMap()
	}
}''' % (len(self.structs), len(self.roots)))

    def generate(self):
        """returns {property: Go source of package main for that property}"""
        self.pending_types, self.decls = [], []
        self.bufs, self.fnsby = {}, {}
        self.gen_cases()
        self.gen_static()
        self.gen_static_hidden()
        self.gen_static_shapes()
        srcs = {}
        for prop in ('C01', 'C02', 'C03', 'C04'):
            self.out = []
            self.emit_prelude()
            self.emit_types()
            for t in self.pending_types:
                self.w(t)
                self.w()
            self.emit_pools()
            self.emit_primes()
            for d in self.decls:
                self.w(d)
            self.w()
            self.out += self.bufs.get(prop, [])
            self.emit_main(prop)
            srcs[prop] = '\n'.join(self.out) + '\n'
        return srcs


def q(s):
    return '"' + s.replace('\\', '\\\\').replace('"', '\\"').replace('\n', '\\n').replace('\t', '\\t') + '"'

def ok_name(k):
    return k != '' and k != '_'

def first_key(s, f):
    for g in s.fields:
        if g.key() == f.key():
            return g is f
    return False

def canon_of(go):
    if go in BYGO:
        return BYGO[go].canon
    if go.startswith('*'):
        return '*' + canon_of(go[1:])
    if go and go[0].isupper():
        return 'main.' + go
    return go

def generate(seed, nshapes, tier):
    return Gen(seed, nshapes, tier).generate()

if __name__ == '__main__':
    import sys
    sys.stdout.write(generate(int(sys.argv[1]), int(sys.argv[2]), 'quick')[sys.argv[3]])

#!/bin/bash
# runs every check (tier $1, default quick) a few at a time; prints the summary lines
tier=${1:-quick}
cd "$(dirname "$0")/.."
printf '%s\n' C01 C02 C03 C04 C05 C06 C07 C08 C09 C10 C11 C12 C13 C14 C15 C16 C17 C18 C19 C20 | xargs -P ${2:-3} -I{} sh -c "./check {} $tier 2>&1 | grep -E 'VIOLATION|KNOWN-FINDING|INCONCLUSIVE|seed=' | cut -c1-300"

#!/bin/bash
# silent-on-the-unchanged-tree sweep: every check at several seeds; evidence/ is left alone (VERIF_SWEEP)
# usage: lib/sweep.sh <tier> <seed>...
cd "$(dirname "$0")/.."
tier=$1; shift
for seed in "$@"; do
  printf '%s\n' C01 C02 C03 C04 C05 C06 C07 C08 C09 C10 C11 C12 C13 C14 C15 C16 C17 C18 C19 C20 | VERIF_SWEEP=1 VERIF_SEED=$seed xargs -P 3 -I{} sh -c "./check {} $tier 2>&1 | grep -E 'VIOLATION|INCONCLUSIVE|seed=|^  C' | cut -c1-400"
done

import json, os, re, shutil, subprocess, sys, tempfile, time, struct, glob, hashlib
from concurrent.futures import ThreadPoolExecutor

ROOT = os.path.dirname(os.path.dirname(os.path.abspath(__file__)))
REPO = os.environ.get('VERIF_REPO', '/repo')
GO = 'go1.26.8'
BUILD = os.path.join(ROOT, '.build')

GOENV = dict(GOFLAGS='-mod=mod', GOPROXY='off', GOSUMDB='off', GOTOOLCHAIN='local', GONOSUMDB='*', GONOSUMCHECK='1', GOWORK='off')

# ---------------------------------------------------------------------------
# property table
#   harness : directory under harness/
#   kind    : main | test        (test = `go test -c`, needed for testing/synctest)
#   modes   : build modes run by a tier: plain | race | checkptr | asan
#   batches : child processes per mode (cases are partitioned i/n)
#   floor   : minimum evaluations below which the run is inconclusive
#   wd      : watchdog seconds (quick, thorough) — inconclusive when it fires, never a verdict
PROPS = {}

def prop(pid, **kw):
    d = dict(kind='main', modes={'quick': ['plain'], 'thorough': ['plain']}, batches={'quick': 1, 'thorough': 8},
             floor=100, wd={'quick': 600, 'thorough': 7200}, level='exploration', stage=False, assumptions=[])
    d.update(kw)
    PROPS[pid] = d

COMMON_ASSUME = [
    'harness is compiled with go1.26.8 (GOTOOLCHAIN=local); golem packages keep the language version of their own go.mod',
    'golem modules are taken from the working tree of %s through replace directives' % REPO,
]

prop('C17', harness='puremon', floor=5000, batches={'quick': 1, 'thorough': 1},
     assumptions=['Go comparison operators on int and string are the reference order/equality'])

prop('C20', harness='ipipemon', tags='hetero', tags_optional='C20/signature: a chain with one distinct type per stage, well-typed by the generic signature of PipeN, no longer compiles', floor=5000, batches={'quick': 1, 'thorough': 1}, stage=True,
     assumptions=['internal/pipe is built from a staged copy of the working tree (it is outside every go.mod); _test.go files are not staged'])

prop('C19', harness='seqmon', floor=5000, batches={'quick': 1, 'thorough': 1}, stage=True,
     assumptions=['internal/seq is built from a staged copy of the working tree under its declared import path github.com/fogfish/golem/seq',
                  'Head/Tail are never applied to an empty sequence (ADT precondition)'])

prop('C18', harness='skipmon', kind='test', tags='verif', floor=5000, batches={'quick': 4, 'thorough': 16}, stage=True, modes={'quick': ['plain', 'race'], 'thorough': ['plain', 'race']},
     assumptions=['internal/maplike is built from a staged copy of the working tree under its declared import path',
                  'structure is read through the public fmt.Stringer dump; keys contain no whitespace so the dump parses unambiguously',
                  'every list is used by one goroutine only (the structure is not concurrent and the property does not ask); several owners, each with a private list, may work at the same time'])

prop('C14', harness='itermon', floor=5000, batches={'quick': 4, 'thorough': 16},
     assumptions=['every leaf is used once per evaluation and rebuilt for the next (the combinators are destructive)',
                  'callbacks are pure functions of their arguments'])
prop('C15', harness='itermon', floor=5000, batches={'quick': 4, 'thorough': 16},
     assumptions=['every leaf is used once per evaluation and rebuilt for the next (the combinators are destructive)',
                  'callbacks are pure functions of their arguments; keys (>= 1000) never equal values (< 997)'])

prop('C16', harness='ductmon', floor=2000, batches={'quick': 4, 'thorough': 16}, modes={'quick': ['plain', 'race'], 'thorough': ['plain', 'race']},
     assumptions=['each intermediate morphism value is used once (the property\'s precondition: combinators mutate the shared AST)',
                  'expected type names are duct.TypeOf of the instantiated type parameters, as the property states'])

RACE_MODES = {'quick': ['race'], 'thorough': ['race']}
PROCS = [4, 2, 8, 1, 4, 2, 16, 3]   # GOMAXPROCS of child i (schedule diversity; also keeps the stop-the-world census cheap)
ENV_ASSUME = ['virtual time and quiescence come from testing/synctest (go1.26.8); library-internal schedules and select choices are whatever the runtime does (sampled, not enumerated)',
              'user functions given to the stages are pure functions of the element id (plus virtual sleeps)']
prop('C06', harness='envsched', kind='test', modes=RACE_MODES, procs=PROCS, floor=1000, batches={'quick': 8, 'thorough': 16}, assumptions=ENV_ASSUME)
prop('C07', harness='envsched', kind='test', modes=RACE_MODES, procs=PROCS, level='fault_enumeration', floor=1000, batches={'quick': 8, 'thorough': 16}, assumptions=ENV_ASSUME + ['both the value and the error channel are eventually read (the property\'s proviso): the end game drains both concurrently'])
prop('C08', harness='envsched', kind='test', modes={'quick': ['race', 'plain'], 'thorough': ['race', 'plain']}, procs=PROCS, floor=1000, batches={'quick': 8, 'thorough': 16}, assumptions=ENV_ASSUME + ['a send that raced with cancel() is an open operation: it may or may not be delivered; if delivered it must keep order', 'porcupine v1.3.0 decides linearizability of the recorded histories; a checker timeout is inconclusive'])
prop('C09', harness='envsched', kind='test', modes=RACE_MODES, procs=PROCS, floor=1000, batches={'quick': 8, 'thorough': 16}, assumptions=ENV_ASSUME)
prop('C10', harness='envsched', kind='test', modes=RACE_MODES, procs=PROCS, floor=300, batches={'quick': 8, 'thorough': 16}, assumptions=ENV_ASSUME + ['monoids are commutative and associative on the generated inputs (wrapping int arithmetic)'])
prop('C11', harness='envsched', kind='test', modes=RACE_MODES, procs=PROCS, floor=1000, batches={'quick': 8, 'thorough': 16}, assumptions=ENV_ASSUME)
prop('C12', harness='envsched', kind='test', modes=RACE_MODES, procs=PROCS, floor=1000, batches={'quick': 8, 'thorough': 16}, assumptions=ENV_ASSUME)
prop('C13', harness='envsched', kind='test', modes=RACE_MODES, procs=PROCS, floor=1000, batches={'quick': 8, 'thorough': 16}, assumptions=ENV_ASSUME)
prop('C05', harness='envsched', kind='test', modes=RACE_MODES, procs=PROCS, floor=1000, batches={'quick': 8, 'thorough': 16}, assumptions=ENV_ASSUME)

def prep_optgen(ctx, cfg, tier, seed):
    """engine B: generate the Go program of this property for this seed/tier, next to a go.mod that points at the
    working tree. The directory is stable (under .build/, content-addressed by seed/tier/repo) so that the Go build
    cache is hit when nothing changed; it holds generated harness code only, never a copy of golem."""
    import optgen
    nshapes = 60 if tier == 'quick' else 240
    tag = hashlib.md5(REPO.encode()).hexdigest()[:6]
    gdir = os.path.join(BUILD, 'optgen-%s-%s-%s' % (seed, tier, tag))
    marker = os.path.join(gdir, '.complete')
    gen_src = open(os.path.join(ROOT, 'lib', 'optgen.py'), 'rb').read()
    stamp = hashlib.md5(gen_src).hexdigest()
    import fcntl
    os.makedirs(BUILD, exist_ok=True)
    lock = open(os.path.join(BUILD, 'optgen.lock'), 'w')
    fcntl.flock(lock, fcntl.LOCK_EX)   # parallel invocations for the same seed generate once
    if not (os.path.exists(marker) and open(marker).read() == stamp):
        srcs = optgen.generate(seed * 1000003 + (1 if tier == 'quick' else 2), nshapes, tier)
        tmpd = tempfile.mkdtemp(prefix='optgen-', dir=BUILD if os.path.isdir(BUILD) else None)
        for p, src in srcs.items():
            os.makedirs(os.path.join(tmpd, p.lower()))
            with open(os.path.join(tmpd, p.lower(), 'main.go'), 'w') as f:
                f.write(src)
        for sub in ('sa', 'sb'):   # static corpus: two packages named x, each with a type Str
            os.makedirs(os.path.join(tmpd, sub, 'x'))
            with open(os.path.join(tmpd, sub, 'x', 'x.go'), 'w') as f:
                box = 'type Box struct {\n\tNote string\n\tN    int\n}\n' if sub == 'sa' else 'type Box struct {\n\tPad  [3]int64\n\tNote string\n\tFlag bool\n\tN    int\n}\n'
                f.write('// Package x (%s): same package name and type names as its sibling; the types are distinct.\npackage x\n\ntype Str string\n\n%s' % (sub, box))
        mod = open(ctx.modfile).read().replace('module verif/harness', 'module optgen', 1)
        mod = mod.replace('require (', 'require (\n\tverif/harness v0.0.0', 1).replace('replace (', 'replace (\n\tverif/harness => %s/harness' % ROOT, 1)
        # staged copies are per-invocation temp dirs: the generated program does not use them
        mod = '\n'.join(l for l in mod.split('\n') if '/stage/' not in l and 'golem/maplike' not in l and 'golem/seq ' not in l and 'verif.stage' not in l)
        with open(os.path.join(tmpd, 'go.mod'), 'w') as f:
            f.write(mod)
        with open(os.path.join(tmpd, '.complete'), 'w') as f:
            f.write(stamp)
        shutil.rmtree(gdir, ignore_errors=True)
        try:
            os.rename(tmpd, gdir)
        except OSError:
            shutil.rmtree(tmpd, ignore_errors=True)   # another invocation won the race with identical content
    fcntl.flock(lock, fcntl.LOCK_UN)
    lock.close()
    return {'pkgdir': os.path.join(gdir, cfg['subpkg'])}

OPT_MODES = {'quick': ['checkptr'], 'thorough': ['checkptr', 'asan']}
OPT_ASSUME = ['the Go compiler (through ordinary selectors, unsafe.Sizeof and address arithmetic on &s.path) is the layout oracle; the generator models only the flattened listing, first-match resolution and must-fail requests',
              'struct shapes are those of the generator grammar in lib/optgen.py; func-typed fields are not generated (NaN, infinities and negative zero are among the values)',
              'checkptr (and ASan in the thorough tier) are secondary oracles; intra-object wrong offsets are caught by the byte-level neighbour monitor only']
for _p in ('C01', 'C02', 'C03', 'C04'):
    prop(_p, harness='optgen', subpkg=_p.lower(), modes=OPT_MODES, env={'GODEBUG': 'gccheckmark=1,clobberfree=1'}, batches={'quick': 4, 'thorough': 8}, floor=100, prepare=prep_optgen, assumptions=OPT_ASSUME, wd={'quick': 900, 'thorough': 7200})

# ---------------------------------------------------------------------------

def log(*a):
    print(*a, file=sys.stderr, flush=True)

def goenv(extra=None):
    e = dict(os.environ)
    e.update(GOENV)
    if extra:
        e.update(extra)
    return e

class Ctx:
    """per-invocation scratch: generated go.mod (replace => working tree), staged copies"""
    def __init__(self, pid, tier):
        self.pid, self.tier = pid, tier
        self.tmp = tempfile.mkdtemp(prefix='verif-%s-' % pid)
        self.modfile = os.path.join(self.tmp, 'go.mod')
        self.stage = os.path.join(self.tmp, 'stage')
        self.rundir = os.path.join(self.tmp, 'run')
        os.makedirs(self.rundir)
        self.make_stage()
        self.make_mod()

    def make_stage(self):
        os.makedirs(self.stage)
        def ign(d, names):
            return [n for n in names if n.endswith('_test.go') or n == 'seqtest']
        for name, mod in (('maplike', 'github.com/fogfish/golem/maplike'), ('seq', 'github.com/fogfish/golem/seq'), ('pipe', 'verif.stage/ipipe')):
            src = os.path.join(REPO, 'internal', name)
            dst = os.path.join(self.stage, name)
            if os.path.isdir(src):
                shutil.copytree(src, dst, ignore=ign)
            else:
                os.makedirs(dst)
            with open(os.path.join(dst, 'go.mod'), 'w') as f:
                f.write('module %s\n\ngo 1.22\n\nrequire github.com/fogfish/golem/pure v0.10.1\n' % mod)

    def make_mod(self):
        rep = {
            'github.com/fogfish/golem/duct': REPO + '/duct',
            'github.com/fogfish/golem/hseq': REPO + '/hseq',
            'github.com/fogfish/golem/optics': REPO + '/optics',
            'github.com/fogfish/golem/pipe/v2': REPO + '/pipe',
            'github.com/fogfish/golem/pure': REPO + '/pure',
            'github.com/fogfish/golem/trait': REPO + '/trait',
            'github.com/fogfish/golem/maplike': self.stage + '/maplike',
            'github.com/fogfish/golem/seq': self.stage + '/seq',
            'verif.stage/ipipe': self.stage + '/pipe',
        }
        with open(self.modfile, 'w') as f:
            f.write('module verif/harness\n\ngo 1.26\n\nrequire (\n\tgithub.com/anishathalye/porcupine v1.3.0\n')
            vers = {'github.com/fogfish/golem/hseq': 'v1.3.0', 'github.com/fogfish/golem/pure': 'v0.10.1', 'github.com/fogfish/golem/pipe/v2': 'v2.0.0'}
            for m in rep:
                f.write('\t%s %s\n' % (m, vers.get(m, 'v0.0.0')))
            f.write(')\n\nreplace (\n')
            for m, p in rep.items():
                f.write('\t%s => %s\n' % (m, p))
            f.write(')\n')
        gs = os.path.join(ROOT, 'harness', 'go.sum')
        if os.path.exists(gs):
            shutil.copy(gs, os.path.join(self.tmp, 'go.sum'))

    def close(self):
        shutil.rmtree(self.tmp, ignore_errors=True)

MODEFLAGS = {
    'plain': [],
    'race': ['-race'],
    'checkptr': ['-gcflags=all=-d=checkptr'],
    'asan': ['-asan'],
}

def build(ctx, harness, kind, mode, pkgdir=None, tags=None):
    """build harness/<harness> against the working tree; returns path of the binary"""
    os.makedirs(BUILD, exist_ok=True)
    out = os.path.join(ctx.tmp, 'bin-%s-%s' % (harness.replace('/', '_'), mode))
    pkg = './' + harness
    cwd = os.path.join(ROOT, 'harness')
    flags = list(MODEFLAGS[mode]) + ['-modfile=' + ctx.modfile]
    if pkgdir:   # a generated program with its own go.mod
        pkg, cwd = '.', pkgdir
        flags = list(MODEFLAGS[mode])
    if tags:
        flags += ['-tags=' + tags]
    if kind == 'test':
        cmd = [GO, 'test', '-c', '-vet=off'] + flags + ['-o', out, pkg]
    else:
        cmd = [GO, 'build'] + flags + ['-o', out, pkg]
    t0 = time.time()
    p = subprocess.run(cmd, cwd=cwd, env=goenv(), stdout=subprocess.PIPE, stderr=subprocess.STDOUT, text=True)
    if p.returncode != 0:
        raise BuildError('build failed (%s): %s\n%s' % (mode, ' '.join(cmd), p.stdout[-6000:]))
    log('[build] %s/%s in %.1fs' % (harness, mode, time.time() - t0))
    return out

class BuildError(Exception):
    pass

# ---------------------------------------------------------------------------
# child processes

def parse_wal(path):
    """returns (open_case_id, open_case_json, n_completed)"""
    open_id, open_js, done = None, None, 0
    try:
        with open(path, errors='replace') as f:
            for line in f:
                if line.startswith('BEGIN '):
                    parts = line.rstrip('\n').split(' ', 2)
                    if len(parts) == 3:
                        open_id, open_js = parts[1], parts[2]
                elif line.startswith('END '):
                    if open_id == line.split()[1]:
                        open_id, open_js = None, None
                    done += 1
    except FileNotFoundError:
        pass
    return open_id, open_js, done

CRASH_PATTERNS = [
    (r'fatal error: checkptr: ([^\n]*)', 'checkptr'),
    (r'ERROR: AddressSanitizer: ([a-z\-]+)', 'asan'),
    (r'panic: ([^\n]{0,100})', 'panic'),
    (r'fatal error: ([^\n]{0,100})', 'fatal'),
    (r'(SIGSEGV[^\n]{0,60})', 'segv'),
]

def classify_crash(text):
    for pat, cls in CRASH_PATTERNS:
        m = re.search(pat, text)
        if m:
            msg = re.sub(r'0x[0-9a-f]+', '0x?', m.group(1))
            msg = re.sub(r'\d+', 'N', msg)
            return cls, msg.strip()
    return 'exit', 'child exited abnormally'

MAX_RESTARTS = 12

# race reports that are a documented consequence of the API, not a defect: pipe.New closes the send side
# on cancel while user goroutines may still be sending on it (the race detector reports close-vs-send).
RACE_BY_DESIGN = [r'pipe/v2\.New\[.*\]\.func1.* <-> verif/harness/envsched\.\(\*world\)\.addInChan', r'verif/harness/envsched\.\(\*world\)\.addInChan.* <-> .*pipe/v2\.New\[',
                  r'pipe/v2\.New\[.*\]\.func1.* <-> verif/harness/envsched\.(linearCase|soakNew)', r'verif/harness/envsched\.(linearCase|soakNew).* <-> .*pipe/v2\.New\[']

def run_child(ctx, pid, binary, kind, mode, tier, seed, batch, nbatch, wd, extra_env=None, args=None):
    """runs one child to completion, restarting after process-fatal reports.
    returns dict(results=[...], crashes=[...], inconclusive=str|None, race_logs=[...])"""
    tag = '%s-%s-%d' % (pid, mode, batch)
    results, crashes, inconc = [], [], None
    resume = None
    race_prefix = os.path.join(ctx.rundir, tag + '.race')
    for attempt in range(MAX_RESTARTS):
        outp = os.path.join(ctx.rundir, '%s.%d.out.json' % (tag, attempt))
        wal = os.path.join(ctx.rundir, '%s.%d.wal' % (tag, attempt))
        errp = os.path.join(ctx.rundir, '%s.%d.stderr' % (tag, attempt))
        env = goenv({'VERIF_SEED': str(seed), 'VERIF_TIER': tier, 'VERIF_PROP': pid, 'VERIF_OUT': outp, 'VERIF_WAL': wal,
                     'VERIF_BATCH': '%d/%d' % (batch, nbatch), 'VERIF_MODE': mode,
                     'GOTRACEBACK': 'all'})
        if mode == 'race':
            env['GORACE'] = 'halt_on_error=0 exitcode=0 log_path=%s history_size=3' % race_prefix
        if mode == 'asan':
            env['ASAN_OPTIONS'] = 'detect_leaks=0:abort_on_error=0:exitcode=66'
        if resume:
            env['VERIF_RESUME_AFTER'] = resume
        if extra_env:
            env.update(extra_env)
        if PROPS[pid].get('env'):
            env.update(PROPS[pid]['env'])
        if PROPS[pid].get('procs'):
            pr = PROPS[pid]['procs']
            env['GOMAXPROCS'] = str(pr[batch % len(pr)])
        cmd = [binary] + (args or [])
        if kind == 'test':
            cmd += ['-test.timeout=0', '-test.count=1']
        t0 = time.time()
        with open(errp, 'w') as ef:
            try:
                p = subprocess.run(cmd, cwd=ctx.rundir, env=env, stdout=ef, stderr=subprocess.STDOUT, timeout=wd)
                rc = p.returncode
            except subprocess.TimeoutExpired:
                oid, ojs, _ = parse_wal(wal)
                inconc = 'watchdog (%ds) fired for child %s; open case: %s %s' % (wd, tag, oid, (ojs or '')[:1500])
                rc = None
        if os.path.exists(outp):
            try:
                r = json.load(open(outp))
                r['_sigs'] = outp + '.sigs'
                results.append(r)
            except Exception as e:
                inconc = 'unreadable result of child %s: %s' % (tag, e)
        if rc is None:
            break
        if rc == 0 and os.path.exists(outp):
            break
        # abnormal end
        open_id, open_js, done = parse_wal(wal)
        text = open(errp, errors='replace').read()
        if open_id is None and os.path.exists(outp):
            break     # non-zero exit after finishing every case (e.g. the test framework's race flag): the result is complete
        cls, msg = classify_crash(text)
        crashes.append(dict(case_id=open_id, case=json.loads(open_js) if open_js else None, cls=cls, msg=msg,
                            stderr=text[-12000:], mode=mode, rc=rc))
        if open_id is None:
            inconc = inconc or ('child %s died (rc=%s, %s: %s) outside any case' % (tag, rc, cls, msg))
            break
        resume = open_id
    else:
        inconc = inconc or ('child %s crashed more than %d times' % (tag, MAX_RESTARTS))
    return dict(results=results, crashes=crashes, inconclusive=inconc, race_logs=glob.glob(race_prefix + '.*'), mode=mode)

# ---------------------------------------------------------------------------
# race reports

def parse_race_logs(paths):
    """returns list of dict(key, text, golem_only, harness_involved)"""
    reports = {}
    for p in paths:
        try:
            txt = open(p, errors='replace').read()
        except OSError:
            continue
        for block in txt.split('=================='):
            if 'WARNING: DATA RACE' not in block:
                continue
            # the two access stacks: first frames after "Write at"/"Read at"/"Previous write at"...
            stacks = re.split(r'\n\n', block.strip())
            acc = [s for s in stacks if re.match(r'\s*(WARNING: DATA RACE\n)?\s*(Previous )?(atomic )?(Read|Write|read|write) (at|of)', s.strip())]
            tops = []
            for s in acc[:2]:
                frames = re.findall(r'^\s+(\S+)\(\)\n\s+(\S+):(\d+)', s, re.M)
                tops.append(frames)
            def top_user(frames):
                for fn, file, line in frames:
                    if '/runtime/' in file or file.startswith('runtime'):
                        continue
                    if re.search(r'/go[0-9][^/]*/src/|/usr/local/go/src/|/usr/lib/go[^/]*/src/', file) and '/pkg/mod/' not in file:
                        continue    # standard library (math/rand, sync, ...): the report belongs to whoever called it
                    return fn, file
                return ('?', '?')
            key = ' <-> '.join(sorted('%s' % (top_user(f)[0]) for f in tops))
            files = [top_user(f)[1] for f in tops]
            golem = [('fogfish/golem' in f or f.startswith(REPO + '/') or 'github.com/fogfish/golem/' in top_user(fr)[0]) for f, fr in zip(files, tops)]
            # harness functions named callerOwns* play a caller writing to memory it owns (its own slice) after the
            # library call it passed it to has returned: a library goroutine racing with that kept the argument
            fns = [top_user(f)[0] for f in tops]
            retained = len(golem) == 2 and any(golem) and any('callerOwns' in fn for fn, g in zip(fns, golem) if not g)
            # in-place monoids of the harness (Combine updates and returns its left operand, a fresh Empty per call) are
            # called by the library only: two such calls racing on one value mean the library handed the same accumulator
            # to two goroutines at once
            shared_acc = len(fns) == 2 and all(re.search(r'(tallyMonoid|bagMonoid)\.Combine', fn) for fn in fns)
            reports.setdefault(key, dict(key=key, text=block.strip()[:6000], n=0,
                                         golem_only=all(golem) and len(golem) == 2,
                                         golem_any=any(golem), retained=retained, shared_acc=shared_acc))
            reports[key]['n'] += 1
    return list(reports.values())

# ---------------------------------------------------------------------------
# known findings

def load_known():
    p = os.path.join(ROOT, 'known_findings.json')
    if not os.path.exists(p):
        return []
    return json.load(open(p)).get('findings', [])

def match_known(known, pid, sig):
    for k in known:
        if k.get('status') != 'known' or k.get('property') != pid:
            continue
        if 'sig' in k and k['sig'] == sig:
            return k
        if 'sig_regex' in k and re.fullmatch(k['sig_regex'], sig):
            return k
    return None

# ---------------------------------------------------------------------------

def union_sigs(results):
    s = set()
    for r in results:
        try:
            b = open(r['_sigs'], 'rb').read()
            s.update(struct.unpack('<%dQ' % (len(b) // 8), b))
        except OSError:
            pass
    return len(s)

def run_property(pid, tier, seed, replay=None):
    cfg = PROPS[pid]
    t0 = time.time()
    ctx = Ctx(pid, tier)
    # runs against a scratch copy (self-validation with VERIF_REPO) never touch the registered evidence
    evid_path = os.path.join(ROOT, 'evidence', pid + '.json') if (REPO == '/repo' and not os.environ.get('VERIF_SWEEP')) else os.path.join(BUILD, 'evidence-alt', pid + '.json')
    os.makedirs(os.path.dirname(evid_path), exist_ok=True)
    violations = []   # dict(sig, desc, case, n, extra)
    inconclusive = []
    all_results, crashes, race_reports = [], [], []
    modes = cfg['modes'][tier]
    try:
        pre = cfg.get('prepare')
        prep = pre(ctx, cfg, tier, seed) if pre else {}
        bins = {}
        with ThreadPoolExecutor(max_workers=4) as ex:
            futs = {m: ex.submit(build, ctx, cfg['harness'], cfg['kind'], m, prep.get('pkgdir'), cfg.get('tags')) for m in modes}
            for m, f in futs.items():
                try:
                    bins[m] = f.result()
                except BuildError as e:
                    if not cfg.get('tags_optional'):
                        raise
                    # the tagged part of the harness is client code that is well-typed by the library's documented
                    # signatures: if only that part stops compiling, that is a refutation, and the rest still runs
                    bins[m] = build(ctx, cfg['harness'], cfg['kind'], m, prep.get('pkgdir'), None)
                    sig, _, what = cfg['tags_optional'].partition(': ')
                    violations.append(dict(sig=sig, desc=what + ' — compiler: ' + str(e)[-700:], case=None, n=1, mode=m))
        nb = 1 if replay else cfg['batches'][tier]
        jobs = []
        for m in modes:
            for b in range(nb):
                jobs.append((m, b))
        extra = dict(prep.get('env', {}))
        if replay:
            extra['VERIF_REPLAY'] = os.path.abspath(replay)
        wd = cfg['wd'][tier]
        with ThreadPoolExecutor(max_workers=min(16, len(jobs))) as ex:
            futs = [ex.submit(run_child, ctx, pid, bins[m], cfg['kind'], m, tier, seed, b, nb, wd, extra, cfg.get('args')) for m, b in jobs]
            outs = [f.result() for f in futs]
        for o in outs:
            all_results += [dict(r, _mode=o['mode']) for r in o['results']]
            crashes += o['crashes']
            if o['inconclusive']:
                inconclusive.append(o['inconclusive'])
            race_reports += parse_race_logs(o['race_logs'])
    except BuildError as e:
        log(str(e))
        inconclusive.append('build failed: ' + str(e)[:400])
    finally:
        pass

    # ---- merge
    evaluations = sum(r.get('evaluations', 0) for r in all_results)
    distinct = union_sigs(all_results)
    counters = {}
    for r in all_results:
        for k, v in (r.get('counters') or {}).items():
            if k.startswith('max_'):
                counters[k] = max(counters.get(k, 0), v)
            else:
                counters[k] = counters.get(k, 0) + v
        if r.get('inconclusive'):
            inconclusive.append(r['inconclusive'])
    samples = []
    for r in all_results:
        for s in (r.get('samples') or []):
            if len(samples) < 8:
                samples.append(s)
    rule = all_results[0].get('rule', '') if all_results else ''
    exhaustive = bool(all_results) and all(r.get('exhaustive') for r in all_results)
    notes = []
    for r in all_results:
        for n in r.get('notes') or []:
            if n not in notes:
                notes.append(n)
    for r in all_results:
        for v in r.get('violations') or []:
            violations.append(dict(v, mode=r['_mode']))
    for c in crashes:
        sig = '%s/crash/%s/%s' % (pid, c['cls'], c['msg'])
        site = (c['case'] or {}).get('site') if isinstance(c['case'], dict) else None
        if site:
            sig = '%s/crash/%s/%s/%s' % (pid, site, c['cls'], c['msg'])
        violations.append(dict(sig=sig, desc='process-fatal report while running case %s (%s build): %s: %s' % (c['case_id'], c['mode'], c['cls'], c['msg']),
                               case=c['case'], n=1, stderr=c['stderr'], mode=c['mode']))
    rr = {}
    for r in race_reports:
        rr.setdefault(r['key'], r)
    for r in rr.values():
        if any(re.search(p, r['key']) for p in RACE_BY_DESIGN):
            counters['race_reports_by_design_ignored'] = counters.get('race_reports_by_design_ignored', 0) + r['n']
            continue
        if r['golem_only']:
            violations.append(dict(sig='%s/race/%s' % (pid, r['key']), desc='data race between golem frames: ' + r['key'], case=None, n=r['n'], stderr=r['text'], mode='race'))
        elif r.get('shared_acc'):
            violations.append(dict(sig='%s/race/shared-accumulator/%s' % (pid, r['key']), desc='the library combines into one accumulator from two goroutines at once (in-place monoid whose Combine updates its left operand): ' + r['key'],
                                   case=None, n=r['n'], stderr=r['text'], mode='race'))
        elif r.get('retained'):
            violations.append(dict(sig='%s/race/retained-argument/%s' % (pid, r['key']), desc='a library goroutine still reads the slice the caller passed, after the call returned and while the caller writes to its own slice: ' + r['key'],
                                   case=None, n=r['n'], stderr=r['text'], mode='race'))
        else:
            inconclusive.append('race report touching harness frames (harness bug, not a verdict): ' + r['key'])
            vio_dir = os.path.join(ROOT, 'replays', pid)
            os.makedirs(vio_dir, exist_ok=True)
            open(os.path.join(vio_dir, 'harness-race-%d.txt' % seed), 'w').write(r['text'])
    counters['race_reports_distinct'] = len(rr)
    if 'race' in modes:
        counters['race_detector_on'] = 1

    if not replay and not violations and evaluations < cfg['floor']:
        inconclusive.append('monitors observed only %d evaluations (floor %d)' % (evaluations, cfg['floor']))
    post = cfg.get('post')
    if post and not replay:
        post(cfg, tier, counters, inconclusive)

    # ---- verdicts
    known = load_known()
    new, old = {}, {}
    for v in violations:
        k = match_known(known, pid, v['sig'])
        d = old if k else new
        if v['sig'] in d:
            d[v['sig']]['n'] += v.get('n', 1)
        else:
            d[v['sig']] = dict(v, known=k)
    rc = 0
    lines = []
    rdir = os.path.join(ROOT, 'replays', pid) if (REPO == '/repo' and not os.environ.get('VERIF_SWEEP')) else os.path.join(BUILD, 'replays-alt', pid)
    for sig, v in sorted(old.items()):
        lines.append('KNOWN-FINDING: property=%s %s [%s; seen %d time(s) in this run]' % (pid, v['known'].get('what', sig), sig, v['n']))
    for i, (sig, v) in enumerate(sorted(new.items())):
        os.makedirs(rdir, exist_ok=True)
        rp = os.path.join(rdir, '%d-%s-%d.json' % (seed, tier, i))
        json.dump(dict(property=pid, seed=seed, tier=tier, sig=sig, desc=v['desc'], case=v.get('case'), mode=v.get('mode'),
                       n=v.get('n', 1), stderr=v.get('stderr')), open(rp, 'w'), indent=1, default=str)
        lines.append('VIOLATION property=%s replay=%s' % (pid, rp))
        log('  %s: %s' % (sig, v['desc'][:600]))
        rc = 1
    if rc == 0 and inconclusive:
        rc = 2

    if not replay:
        cov = dict(evaluations=int(evaluations), distinct_nontrivial=int(distinct), rule=rule, samples=samples,
                   exhaustive=exhaustive, counters=counters, modes=modes, children=len(all_results),
                   known_findings_seen=[dict(sig=s, n=v['n']) for s, v in sorted(old.items())],
                   verdict=('violated' if new else ('inconclusive' if inconclusive else 'held on what was observed')))
        if notes:
            cov['notes'] = notes
        if inconclusive:
            cov['inconclusive'] = inconclusive[:10]
        ev = dict(property_id=pid, tier=tier, seed=int(seed), level=cfg['level'], coverage=cov,
                  assumptions=COMMON_ASSUME + cfg['assumptions'], wall_s=round(time.time() - t0, 2), violations=len(new))
        tmp = evid_path + '.tmp.%d' % os.getpid()
        json.dump(ev, open(tmp, 'w'), indent=1, default=str)
        os.replace(tmp, evid_path)
    ctx.close()
    for l in lines:
        print(l)
    for i in inconclusive[:10]:
        print('INCONCLUSIVE property=%s %s' % (pid, i))
    print('%s %s seed=%s: evaluations=%d distinct_nontrivial=%d violations=%d known=%d wall=%.1fs -> %s' % (
        pid, tier, seed, evaluations, distinct, len(new), len(old), time.time() - t0,
        'VIOLATED' if new else ('INCONCLUSIVE' if inconclusive else 'HELD')))
    sys.stdout.flush()
    return rc

def setup():
    """build every harness in every mode once so that later builds hit the cache"""
    rc = 0
    seen = set()
    for pid, cfg in sorted(PROPS.items()):
        ctx = Ctx(pid, 'quick')
        try:
            pre = cfg.get('prepare')
            prep = pre(ctx, cfg, 'quick', 1) if pre else {}
            for m in sorted(set(cfg['modes']['quick'] + cfg['modes']['thorough'])):
                key = (cfg['harness'], m, cfg.get('setup_key', ''))
                if key in seen:
                    continue
                seen.add(key)
                try:
                    build(ctx, cfg['harness'], cfg['kind'], m, prep.get('pkgdir'), cfg.get('tags'))
                except BuildError as e:
                    log(str(e))
                    rc = 1
        finally:
            ctx.close()
    return rc

def main(argv):
    if not argv or argv[0] in ('-h', '--help'):
        print(__doc__ or 'usage: check <ID> quick|thorough | --setup | --list')
        return 0
    if argv[0] == '--setup':
        return setup()
    if argv[0] == '--list':
        for p in sorted(PROPS):
            print(p, PROPS[p]['harness'])
        return 0
    pid = argv[0]
    if pid not in PROPS:
        log('unknown property', pid)
        return 2
    seed = int(os.environ.get('VERIF_SEED', '1') or 1)
    if len(argv) >= 3 and argv[1] == '--replay':
        return run_property(pid, os.environ.get('VERIF_TIER', 'quick'), seed, replay=argv[2])
    tier = argv[1] if len(argv) > 1 else os.environ.get('VERIF_TIER', 'quick')
    if tier not in ('quick', 'thorough'):
        log('tier must be quick or thorough')
        return 2
    return run_property(pid, tier, seed)
